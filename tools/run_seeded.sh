#!/bin/bash
# usage: run_seeded.sh <seeded id> <property id>... ; applies /verif/seeded/<id>/patch.diff in a scratch worktree of /repo HEAD
# and runs the given quick checks against it (evidence and replays go to a scratch directory). Prints DETECTED/MISSED per check.
sid="$1"; shift
wt=/tmp/seed_$sid; scratch=/tmp/seed_$sid.out
git -C /repo worktree add --detach $wt HEAD >/dev/null 2>&1 || { echo "$sid: worktree failed"; exit 2; }
trap 'git -C /repo worktree remove --force '$wt' >/dev/null 2>&1; rm -rf '$scratch EXIT
if ! git -C $wt apply /verif/seeded/$sid/patch.diff 2>/dev/null; then
  git -C $wt apply --3way /verif/seeded/$sid/patch.diff >/dev/null 2>&1 || { echo "$sid: PATCH-DOES-NOT-APPLY"; exit 2; }
fi
mkdir -p $scratch
for pid in "$@"; do
  out=$(MCX_REPO=$wt MCX_EVIDENCE_DIR=$scratch MCX_REPLAY_DIR=$scratch/replays ${TIER_ENV:-} /verif/check $pid ${TIER:-quick} 2>&1); rc=$?
  nv=$(echo "$out" | grep -c "^VIOLATION")
  cl=$(echo "$out" | grep "clause=" | sed 's/.*clause=\([^ ]*\).*/\1/' | sort | uniq -c | tr '\n' ';')
  if [ $rc -eq 1 ] && [ $nv -gt 0 ]; then echo "$sid $pid DETECTED ($cl)"; else echo "$sid $pid MISSED rc=$rc"; echo "$out" | tail -2; fi
done
