"""Print the prompt given to a mutation sub-agent for one property (text of the property only)."""
import json, sys
pid = sys.argv[1]
for l in open('/verif/properties.jsonl'):
    p = json.loads(l)
    if p['id'] == pid:
        break
else:
    raise SystemExit('unknown property')
wt, out = f'/tmp/wt_{pid}', f'/tmp/out_{pid}'
print(f"""You are helping to evaluate a verification effort for the open-source Python library py-droplets (zwicker-group/py-droplets): a library representing droplets and emulsions, locating them in phase-field images via thresholding, labelling and least-squares refinement, and tracking them over time.

You have your own scratch git worktree of the library at {wt} (detached HEAD). Work ONLY inside {wt} and {out}. Never touch /repo or /verif, and do not read anything under /verif.

Here is a semantic property that the library is supposed to satisfy:

  Title: {p['title']}
  Statement: {p['statement']}
  Quantified over: {p['quantifier']['text']}

Your task: produce TWO independent, realistic source changes (call them A and B) to the library code under {wt}/droplets that each BREAK this property while
  (1) the package still imports and the complete existing test suite still passes unchanged (you must not edit tests), and
  (2) the breakage needs something specific to manifest: a multi-step sequence of operations, an unusual but valid input (e.g. particular geometry, boundary placement, ties, empty members, particular sizes/dimensions/modes), a particular ordering, or two cooperating code sites that each look fine alone. It must NOT be something that ordinary, simplest-possible use of the API would expose at once, and it must not be a crash on every call. Think of plausible bugs a maintainer could introduce in a refactoring or "optimisation": off-by-one, wrong branch for an edge case, lost copy, wrong metric, stale cached state, wrong comparison operator for ties, wrong index, missing wrap, etc. A and B should touch different mechanisms / code sites.

How to run things (the library is pure Python; use this interpreter and PYTHONPATH so that your worktree, not the installed copy, is imported):
  cd {wt} && PYTHONPATH={wt} /venv/bin/python -c "import droplets; print(droplets.__file__)"     # must print a path under {wt}
  cd {wt} && PYTHONPATH={wt} /venv/bin/python -m pytest -q -p no:cacheprovider --timeout=900 -x -n 8 tests     # full suite (112 tests, ~1 min); must stay green
There is no network. Do not install anything. Never use `git stash` (the stash is shared between worktrees of the same repository and other people work in sibling worktrees); to set a change aside use `git diff > file; git checkout -- .` and `git apply file`.

For each of A and B deliver, in {out}:
  - patchA.diff / patchB.diff : output of `git -C {wt} diff` for that change alone relative to HEAD (make change A, save diff, `git -C {wt} checkout -- .`, then make change B, save diff, revert again). Each patch must apply cleanly to a pristine HEAD with `git apply`.
  - demoA.py / demoB.py : a small standalone program (run as `PYTHONPATH=<tree> /venv/bin/python demoX.py`) that exits 0 on the pristine tree and exits non-zero (assertion failure) with the patch applied, demonstrating the violation of the property as stated. The demo should check the property as stated, not implementation details.
  - notes.md : for each change: which file/function, what it breaks, and precisely what is needed for it to manifest.
Before finishing, verify for each patch yourself: applies to pristine HEAD; full test suite passes with it; demo fails with it and passes without it. Leave the worktree pristine (`git -C {wt} status --short` empty apart from untracked files you created, which you should delete) when done.
Your final answer should be a brief summary of A and B (what, where, trigger) and confirmation of the verification steps you ran.""")
