"""Wave 11 prompt: agent_prompt7 plus directions little used so far (boundary members of sequences, branch cuts, swallowed errors, identity-keyed caches, feature combinations)."""
import subprocess, sys
pid = sys.argv[1]
base = subprocess.run([sys.executable, '/verif/tools/agent_prompt7.py', pid], capture_output=True, text=True).stdout
print(base.rstrip() + " Strongly prefer SILENT wrong results. Directions that earlier rounds used little, pick from these where they fit the property: "
      "(a) BOUNDARY MEMBERS - the first or last element of a sequence treated differently (first / last frame, last droplet of a list, last cell of an axis, the "
      "highest mode, an emulsion that becomes empty in the middle and non-empty again); (b) BRANCH CUTS and exact special values of angles and coordinates - "
      "arctan2 / modulo at exactly 0, pi, 2 pi, a point exactly on a symmetry axis or exactly in the middle between two periodic images, a radius exactly equal to a "
      "grid spacing or to half the box; (c) SWALLOWED ERRORS - a try/except or a guard that turns a failure or an unusual input into a plausible default value; "
      "(d) CACHES OR MEMOS keyed by object identity, by a rounded float, by a hash of only part of the relevant state, or kept in a mutable default argument or "
      "class attribute shared between instances; (e) COMBINATIONS of three independent features that are each fine in pairs (e.g. periodic AND anisotropic AND "
      "shifted origin; refine AND modes AND minimal radius; non-uniform times AND empty frames AND distance tracking). "
      "Each of A and B must use a different one of these directions, and neither may be found by a single call with default arguments on a small square unit grid.")
