"""Regenerate /verif/MANIFEST.json from the table below (only checks whose module exists are claimed)."""
import json, os

V = "/verif"
props = [json.loads(l) for l in open(f"{V}/properties.jsonl")]

# per property: (category, level text, level_note, technique, design_ref)
T = {}
def reg(pid, text, note, technique, ref=None):
    T[pid] = dict(text=text, note=note, technique=technique, ref=ref or f"DESIGN.md §2 {pid}")

COMMON_NOTE = ("Trusted base: the harness' own reference model (numpy only, no droplets/scipy.ndimage/grid.distance), "
               "numpy/scipy/h5py/py-pde as environment; verdict holds for every element of the declared finite space only.")

X = " Complete enumeration of the declared finite space on the real implementation (stateless exploration), no sampling; tiers differ only in the size of the declared space."
reg("C01", "All lattice placements (position class x sub-cell offset per axis, radii, periodicity masks, spacings, origins, 1-2 droplets) of spherical droplets on Cartesian grids and radius/z lattices on polar, spherical and cylindrical grids are rendered and located; count, exact covered-cell volume, half-cell centre bound and in-box are judged against an own covered-set model." + X,
    COMMON_NOTE + " The half-cell bound is checked on the lattice, not proved for the continuum; cylindrical periodic-z droplets stay away from the z boundary.", "bounded exhaustive input enumeration vs. independent covered-cell model")
reg("C02", "Every binary image of the declared small grids under every periodicity mask (plus cylindrical grids) is analysed and compared with an independent union-find labelling that carries integer period offsets (components, winding, unwrapped centre of mass): bijection, volume, position, disjointness, omission rule, empty result." + X,
    COMMON_NOTE + " Exhaustive up to 16-20 cells; larger images only through a fixed catalogue.", "exhaustive enumeration of all binary images vs. union-find reference")
reg("C06", "All frame histories up to depth 3 (5 for single-droplet frames) over a droplet-type lattice, for every tracker configuration (method x cut-off x metric x time variant), are fed to the tracker on fresh objects; the returned tracks are compared as a multiset partition of the input, with alignment, copy, gap-free and input-unmodified clauses." + X,
    COMMON_NOTE, "bounded exhaustive exploration of operation histories (frames fed) vs. reference partition model")
reg("C07", "Same history space as C06 restricted to internally non-overlapping frames, plus motion histories; links are compared with the overlap relation and with a greedy closest-pair reference computed with an own periodic metric." + X,
    COMMON_NOTE + " Ties / contacts within 1e-9 are skipped and counted.", "bounded exhaustive exploration of frame histories vs. reference matching model")
reg("C10", "All ordered emulsions of up to 3-4 droplets over a (position, radius) lattice in 1-3 dimensions, every min_distance and every metric (none, periodic, mixed, non-periodic) are run through remove_overlapping and the distance queries and compared with an own minimal-image distance matrix; from_random over a seeded catalogue." + X,
    COMMON_NOTE, "bounded exhaustive input enumeration vs. reference distance model")
reg("C11", "All ordered operand pairs over position/radius/width alphabets in 1-3 dimensions through all four code paths (merge, in-place, class-level on records, numba-jitted) and all bracketings/orders of 3-4 droplets are compared with the conservation laws." + X,
    COMMON_NOTE + " Symbolic 'for all positive reals' is not decided.", "bounded exhaustive input enumeration vs. conservation-law reference")
reg("C12", "Every (dimension, value on a 30-decade lattice, argument form) combination is run through every variant of every conversion and the droplet accessors on the real code and compared with the closed-form definitions." + X,
    COMMON_NOTE + " Symbolic 'for all positive reals' is not decided.", "bounded exhaustive input enumeration against reference formulas")
reg("C16", "All non-zero fields over a 3-letter alphabet on small periodic grids (1-3 dim, even/odd) are transformed by every scaling, cyclic shift, reflection, axis permutation and regridding of a menu and compared with a direct DFT from the definition, Parseval and the exact wave-number grid; the smoothed variant is checked for the same invariances." + X,
    COMMON_NOTE, "exhaustive enumeration of all small fields x symmetry group vs. direct-DFT reference")
def main():
    checks, na = [], []
    for p in props:
        pid = p["id"]
        if pid in T and os.path.exists(f"{V}/checks/{pid}.py"):
            t = T[pid]
            checks.append({
                "property_id": pid,
                "quick_cmd": f"./check {pid} quick",
                "thorough_cmd": f"./check {pid} thorough",
                "evidence_file": f"/verif/evidence/{pid}.json",
                "replay_cmd_template": f"./check {pid} quick --replay {{path}}",
                "engine": "mcx",
                "level_claimed": {"category": "model_checking", "text": t["text"], "design_ref": t["ref"]},
                "level_note": t["note"],
                "technique": t["technique"],
            })
        else:
            na.append({"property_id": pid, "reason": "check not built yet in this round (planned, see DESIGN.md §2); no claim is made"})
    m = {
        "version": 1,
        "setup_cmd": "./setup.sh",
        "hooks": {
            "guard": "PY_DROPLETS_VERIF",
            "enable": "no source hooks: checks import /repo's working tree with PYTHONPATH=/repo and replace scipy.optimize / concurrent.futures at the module seam from outside",
            "baseline_off_cmd": "cd /repo && /venv/bin/python -m pytest -ra -q -p no:cacheprovider --timeout=900 --continue-on-collection-errors",
            "source_commits": [],
            "add_only": True,
        },
        "engines": [{
            "name": "mcx", "path": "/verif/mcx",
            "serves_properties": [c["property_id"] for c in checks],
            "kind_free_text": "hand-written stateless explorer for Python: complete enumeration of declared finite spaces "
                              "(input products, operation histories with canonical-state dedupe, completion schedules) executed on the real implementation, "
                              "judged by independent reference models",
        }],
        "checks": checks,
        "not_applicable": na,
        "notes": "All checks: ./check <id> quick|thorough. Known findings: /verif/known_findings.json. Seeded changes: /verif/seeded/.",
    }
    if not na:
        m["not_applicable"] = []
    json.dump(m, open(f"{V}/MANIFEST.json", "w"), indent=1)
    print("claimed", [c["property_id"] for c in checks], "n/a", len(na))

if __name__ == "__main__":
    main()
