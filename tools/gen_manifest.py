"""Regenerate /verif/MANIFEST.json from the table below (only checks whose module exists are claimed)."""
import json, os

V = "/verif"
props = [json.loads(l) for l in open(f"{V}/properties.jsonl")]

# per property: (category, level text, level_note, technique, design_ref)
T = {}
def reg(pid, text, note, technique, ref=None):
    T[pid] = dict(text=text, note=note, technique=technique, ref=ref or f"DESIGN.md §2 {pid}")

COMMON_NOTE = ("Trusted base: the harness' own reference model (numpy only, no droplets/scipy.ndimage/grid.distance), "
               "numpy/scipy/h5py/py-pde as environment; verdict holds for every element of the declared finite space only.")

X = " Complete enumeration of the declared finite space on the real implementation (stateless exploration), no sampling; tiers differ only in the size of the declared space."
reg("C01", "All lattice placements (position class x sub-cell offset per axis, radii, periodicity masks, spacings, origins, 1-2 droplets) of spherical droplets on Cartesian grids and radius/z lattices on polar, spherical and cylindrical grids are rendered and located; count, exact covered-cell volume, half-cell centre bound and in-box are judged against an own covered-set model. Also annular polar/spherical grids, cylindrical z ranges on both sides of 0, elongated boxes with pairs separated by the other axis' length. Histories: grids that differ in one attribute (or caller-owned option dicts) are used one after the other in a freshly forked process, in every order, each call judged by the same oracle." + X,
    COMMON_NOTE + " The half-cell bound is checked on the lattice, not proved for the continuum; cylindrical periodic-z droplets stay away from the z boundary.", "bounded exhaustive input enumeration vs. independent covered-cell model")
reg("C02", "Every binary image of the declared small grids under every periodicity mask (plus cylindrical grids) is analysed and compared with an independent union-find labelling that carries integer period offsets (components, winding, unwrapped centre of mass): bijection, volume, position, disjointness, omission rule, empty result. Plus all on-axis bodies of revolution over a width alphabet on 8x6..8x10 cylindrical grids and alternating-periodicity histories in fresh processes; the cylindrical known finding only matches outcomes equal to the non-periodic analysis." + X,
    COMMON_NOTE + " Exhaustive up to 16-20 cells; larger images only through a fixed catalogue.", "exhaustive enumeration of all binary images vs. union-find reference")
reg("C06", "All frame histories up to depth 3 (5 for single-droplet frames) over a droplet-type lattice, for every tracker configuration (method x cut-off x metric x time variant), are fed to the tracker on fresh objects; the returned tracks are compared as a multiset partition of the input, with alignment, copy, gap-free and input-unmodified clauses." + X,
    COMMON_NOTE, "bounded exhaustive exploration of operation histories (frames fed) vs. reference partition model")
reg("C07", "Same history space as C06 restricted to internally non-overlapping frames, plus motion histories; links are compared with the overlap relation and with a greedy closest-pair reference computed with an own periodic metric." + X,
    COMMON_NOTE + " Ties / contacts within 1e-9 are skipped and counted.", "bounded exhaustive exploration of frame histories vs. reference matching model")
reg("C10", "All ordered emulsions of up to 3-4 droplets over a (position, radius) lattice in 1-3 dimensions, every min_distance and every metric (none, periodic, mixed, non-periodic) are run through remove_overlapping and the distance queries and compared with an own minimal-image distance matrix; from_random over a seeded catalogue." + X,
    COMMON_NOTE, "bounded exhaustive input enumeration vs. reference distance model")
reg("C11", "All ordered operand pairs over position/radius/width alphabets in 1-3 dimensions through all four code paths (merge, in-place, class-level on records, numba-jitted) and all bracketings/orders of 3-4 droplets are compared with the conservation laws." + X,
    COMMON_NOTE + " Symbolic 'for all positive reals' is not decided.", "bounded exhaustive input enumeration vs. conservation-law reference")
reg("C12", "Every (dimension, value on a 30-decade lattice, argument form) combination is run through every variant of every conversion and the droplet accessors on the real code and compared with the closed-form definitions." + X,
    COMMON_NOTE + " Symbolic 'for all positive reals' is not decided.", "bounded exhaustive input enumeration against reference formulas")
reg("C16", "All non-zero fields over a 3-letter alphabet on small periodic grids (1-3 dim, even/odd) are transformed by every scaling, cyclic shift, reflection, axis permutation and regridding of a menu and compared with a direct DFT from the definition, Parseval and the exact wave-number grid; the smoothed variant is checked for the same invariances. Grid-sequence histories (same field on equal-shape grids of different spacings in every order, fresh process) included." + X,
    COMMON_NOTE, "exhaustive enumeration of all small fields x symmetry group vs. direct-DFT reference")

reg("C03", "Every (droplet class x compatible grid x width x level pair x centre class x radius x amplitude pattern) combination of the declared alphabets is rendered on the real code; every cell of every field is judged against an own cell-centre / minimal-image / harmonic-series model (finite, range, inside<=>beyond midpoint, indicator, monotone, tanh profile), every whole-cell shift of a menu against np.roll and every permutation of <= 3 droplets against the clipped sum. Extreme widths (1e-3, 1e3 cells) included. Histories: grids that differ in one attribute (or caller-owned option dicts) are used one after the other in a freshly forked process, in every order, each call judged by the same oracle." + X,
    COMMON_NOTE + " Cells within 1e-9 of the interface or of half a period (ambiguous direction) are screened and counted; periodic-z cylindrical wrapping is a recorded dependency finding (KF-C03-cyl-periodic-z).", "bounded exhaustive input enumeration vs. independent per-cell geometry model")
reg("C04", "Every (image class x candidate class/mode count x candidate state x grid x intensity handling) combination of the declared catalogue is refined by the real refine_droplet while the least-squares objective is observed at the module seam (start and end cost); class, bounds, symmetry-constrained coordinates, box wrapping, image bytes, fixed point at the truth and the harness' own squared deviation are judged for every case. The plural entry point must agree bitwise; all ordered pairs of probe fits handed one options dict must equal fits with fresh options." + X,
    COMMON_NOTE + " The objective observed is the one handed to scipy's least_squares; the optimiser itself is environment.", "bounded exhaustive input enumeration with optimiser seam observation")
reg("C05", "Every placement of the declared lattice (position class x sub-cell offset per axis, masks, radii, widths, 1-2 droplets) x threshold rule x intensity option on Cartesian 1-3-D, polar, spherical and cylindrical grids is rendered, located with refinement and compared with the originals (count, position, radius, width to 1e-4). Strongly non-square boxes, big+small pairs, annular grids, cylindrical z ranges excluding 0, and shared-refine_args histories (ordered pairs/triples of intensity maps, one dict) are part of the space." + X,
    COMMON_NOTE + " Automatic levels without fitting are outside the statement and not judged.", "bounded exhaustive input enumeration vs. ground-truth parameters")
reg("C08", "All collections over a catalogue of droplet values of every class/dimension (emulsions of size 0-3, time courses of <= 3 frames plus a 12-frame course, tracks of length 0-3, track lists of <= 3 tracks, every time variant, all mixed-class ordered pairs, all write-A-write-B-read histories on one path) are written and read back through the real HDF5 path and compared by the library's equality and by an own bit-level comparison." + X,
    COMMON_NOTE + " h5py/HDF5 are environment.", "bounded exhaustive exploration of write/read histories vs. bit-level value model")
reg("C09", "All binary images of the small grids plus a field catalogue on every grid family x the full option product (threshold rule x minimal radius x width x modes x refine x refine_args), a droplet catalogue x grid catalogue for rendering, all frame histories of the tracking alphabet x tracker configurations, and 3-frame tracker sequences are executed; only documented errors may be raised and all returned parameters must be finite. Zero widths, a caller-owned optimiser-options dict and requests with several worker processes (controlled pool) are part of the option product." + X,
    COMMON_NOTE + " Refinement of arbitrary clusters is restricted to the 3x3 (quick) / 3x4 and 2x2x3 (thorough) image sets because a fit costs ~0.25 s.", "bounded exhaustive input and history enumeration with exception/finiteness oracle")
reg("C13", "Every (class x radius x centre x amplitude pattern [zero, all singles, all pairs, fixed triples] x amplitude scale x direction lattice) combination is evaluated on the real classes and compared with an own harmonic series, exact differential geometry of r = rho(direction) by 4th-order differences, and Gauss-Legendre x trapezoid quadrature; mutation sequences (set amplitudes / radius, re-query) check that cached quantities follow the state." + X,
    COMMON_NOTE + " 'To first order' is decided at eps = 1e-4 and 1e-5 with stated constants (bounded surrogate).", "bounded exhaustive input enumeration vs. independent differential-geometry / quadrature reference")
reg("C14", "State machine initialize -> handle* -> finalize of DropletTracker and LengthScaleTracker: all field sequences of length 0-3 (4 thorough) over a 6-field alphabet on three grid families x time variants x settings menu x source selection x pre-filled time course are fed to the real trackers; after every prefix the recorded data is compared with the offline analysis of a MemoryStorage with the same fields, and the written files are read back; two real solver runs serve as conformance pass. A second reference analyses every frame on its own with a deep copy of the settings; equal consecutive time stamps and frames on other intensity levels are in the alphabet." + X,
    COMMON_NOTE + " The offline reference is the library's own from_storage/get_length_scale: the property is the agreement between the two paths.", "bounded exhaustive exploration of tracker event histories vs. offline reference path")
reg("C17", "Plane waves with every admissible wave vector on periodic grids in 1-3 dimensions x amplitude x offset x phase, multi-droplet and non-convex binary fields and all small two-letter fields x the spacing menu over five decades x field scalings x all cyclic shifts of a menu x the three methods are evaluated and compared (stretch covariance, scale/shift invariance, peak location within half a Fourier bin, volume per detected droplet from an own count). Spacings span 1e-9..1e6; anisotropic equal-count grids, bar families and every shift of every 3x4 image for the counting method." + X,
    COMMON_NOTE, "bounded exhaustive input enumeration vs. scaling-law reference")
reg("C18", "Every image over a 3-4 letter dyadic alphabet on the declared small grids of every family x every threshold rule x exactly representable positive affine maps x minimal radii is located and compared with the result for the binary image 'data > T_ref', where T_ref comes from the rule's definition (Otsu: direct between-class variance over every split of the 256-bin histogram). DropletTracker and EmulsionTimeCourse.from_storage are driven as further entry points on sequences of differently scaled frames." + X,
    COMMON_NOTE + " The droplets of a given binary image are taken from the library's mask routine (decided by C02).", "exhaustive enumeration of all small multi-level images vs. threshold-definition reference")
reg("C19", "The complete product grid family/dimension/periodicity x modes 0..4 x width {None, 0, value} x refine x threshold rule x image catalogue {empty, one, two, droplet + speck} is located and every result's class, amplitude count, carried width, shared layout (Emulsion.data formable) and dimension are compared with the statement; modes in 1-D must raise the documented ValueError." + X,
    COMMON_NOTE, "exhaustive enumeration of the finite configuration space")
reg("C20", "Three breadth-first explorers (Emulsion, EmulsionTimeCourse, DropletTrack/-List) over the declared operation alphabets to depth 4 (5 thorough); every history is replayed on fresh real objects next to a list-of-values model; states are deduplicated on canon(model values, alias pattern of live droplet buffers, buffer kinds); after every transition content, caller objects, alignment, rejection and the summary queries are compared with the model." + X,
    COMMON_NOTE + " Dedupe assumes no hidden state outside droplet buffers, dtypes and time lists.", "explicit-state BFS over operation histories of the real collections vs. list reference model")
reg("C15", "The real refine_droplets / locate_droplets(refine=True) / EmulsionTimeCourse.from_storage are run under a controlled virtual-time executor installed at the concurrent.futures seam: for every worker count k (2..n+1 and 'auto') every feasible completion order of the n tasks on a FIFO k-worker pool is enumerated (count asserted against the closed form k!*k^(n-k)), tasks execute in separate worker states across a real pickle boundary, and the result is compared bit-for-bit and in order with the serial run; repeat runs and a free-running real ProcessPoolExecutor pass complete it." + X,
    COMMON_NOTE + " Real OS scheduling/prefetch of ProcessPoolExecutor is covered only by the uncontrolled conformance pass.", "exhaustive enumeration of completion schedules under a controlled executor vs. serial reference")
# additions of later rounds (appended to the level text)
ADD = {
    "C14": " Also: both trackers of an interleaved pair are judged, also on a 64x66 image; a length-scale tracker and a droplet tracker chained on one state object in either order (state-unmodified clause). Live-state feeding (one state object overwritten in place) and a restarting clock.",
    "C01": " Also: the same placements measured in length units 1e-9 ... 1e12; large diagonal pairs whose bounding boxes overlap.",
    "C02": " Also: every image of a 3x4 cylindrical / anisotropic 3x3 grid analysed in sequence on one shared grid object; every union of two wrapped rectangles on 8x8; grids in other length units; periodic cylinders with one-decimal bounds and components centred exactly on the periodic boundary. Boxes 2^27 spacings away from the coordinate origin. Alternating-origin histories.",
    "C03": " Also: axisymmetric perturbed droplets on 3-d Cartesian grids and every ordered pair of amplitude counts rendered in one fresh process. Grids with more than 4096 cells (72x72 ... 18x18x19) incl. droplets over the last cells; clipped sums on cylinders far from z = 0 in every order. The same droplet on boxes differing only in periodicity, every ordered pair of masks.",
    "C04": " Also: candidates that cover no cell (also in a periodic image of the box), perturbed candidates without modes, one-sided automatic intensity levels. The plural entry point with every container form of the candidates (list, tuple, emulsion, generator, iterator, map, object array) x 1/2/3/auto processes.",
    "C05": " Also: numeric thresholds off the mid level and ordered pairs/triples of images analysed with worker processes (controlled pool) in one process; harness-rendered droplets centred exactly on the periodic z boundary of cylinders. Droplets reaching across the periodic z boundary of cylinders; option-prelude histories (an earlier call with unusual optimiser options, then default calls); centres 0.005-0.1 cells either side of a periodic boundary; float32 / Fortran-ordered / read-only images.",
    "C06": " Also: time courses continued by append() without a time stamp. Cut-off exactly 0; crowds of 17 / 70 static droplets with one actor; frames that went through get_linked_data, pickle, deepcopy or a rebuild from data rows before tracking.",
    "C07": " Also: time courses continued by append() without a time stamp; tracks obtained directly from stored fields (from_storage) on all histories of <= 3 frames must equal those of the analysed time course. Cut-off exactly 0; crowds of 17 / 70 static droplets with one actor that grows, shrinks, moves or vanishes; life cycles of the frames as in C06. Pairs facing each other across the x / y boundary of a 2-d box for every grid configuration.",
    "C09": " Also: tracking with a polar / spherical / cylindrical grid supplied, refine_droplet called directly on the droplet catalogue, a storage analysed again after the resulting time course was extended. One droplet tracked through frames that represent it by different droplet classes.",
    "C10": " Also: lattices translated by 2^27 (positions far from the coordinate origin). Emulsions of more than 8 / 64 droplets: every core of <= 4 droplets over a disparate line lattice embedded in 9 / 70 fillers.",
    "C11": " Also: all histories of <= 3 merges inside a 4-member emulsion (members in place, rows of the linked array, replacement, reversal) with conservation after every step. Balanced merge trees over 9-130 droplets with every intermediate result kept alive and judged at the end.",
    "C13": " Also: angle buffers overwritten in place between calls. Polar angle omitted (documented short form of the 3-d class).",
    "C18": " Also: annular grids with an own radial model of the result; every block on one grid object. The size filter on refined results: smooth droplets x six thresholds x 13 minimal radii around the droplet radius on four grid families.",
    "C12": " Also: perturbed classes over the whole radius lattice (sphere limit, homogeneity in the radius, vanished droplets).",
    "C15": " Also: a candidate exactly on the coordinate origin, the same candidate object listed twice, translated-box and other-periodicity storage scenarios in the call histories, and one 132-task refinement for which only the first 3 schedules are run (declared cap, see evidence caps_hit). Candidate container forms (generator, iterator, tuple, emulsion, map); a 17-candidate refinement with 2, 3, 4 and auto workers (first 3 schedules each, declared cap).",
    "C16": " Also: seven forms of the wave-number request (starting at 0, single value, descending, tuple, array). A catalogue of three asymmetric fields on six shapes with 1000-4500 cells under the mode-resolved clauses. Grid sequences in units 1e-9, 1e-12, 1e6.",
    "C17": " Also: neighbouring tiny spacings (1e-10, 1e-9, 2e-9), a knife-edge screen computed from an own FFT spectrum, droplet counting on partly periodic boxes. Every translation of every 1-d binary image of 7, 8, 10 cells with the own component count; droplet counting on cylindrical grids (stretch, scale, translations along periodic z). Droplet counting with forwarded options (refinement, worker processes).",
    "C19": " Also: request preludes (a perturbed-shape request on a grid of each family made first in the same process). Image data as float32, bool, uint8, int64, Fortran-ordered and read-only arrays.",
    "C20": " Also: bulk additions with consistency requested, constructor with caller-owned lists, checked additions to derived collections, item assignment, reversal, conversion of the time course to tracks. Summary queries against the members' own volumes and boxes for all five droplet classes x eight construction paths x five radius families (near-equal, huge, with vanished members).",
}


def main():
    checks, na = [], []
    for p in props:
        pid = p["id"]
        if pid in T and os.path.exists(f"{V}/checks/{pid}.py"):
            t = T[pid]
            checks.append({
                "property_id": pid,
                "quick_cmd": f"./check {pid} quick",
                "thorough_cmd": f"./check {pid} thorough",
                "evidence_file": f"/verif/evidence/{pid}.json",
                "replay_cmd_template": f"./check {pid} quick --replay {{path}}",
                "engine": "mcx",
                "level_claimed": {"category": "model_checking", "text": t["text"] + ADD.get(pid, ""), "design_ref": t["ref"]},
                "level_note": t["note"],
                "technique": t["technique"],
            })
        else:
            na.append({"property_id": pid, "reason": "check not built yet in this round (planned, see DESIGN.md §2); no claim is made"})
    m = {
        "version": 1,
        "setup_cmd": "./setup.sh",
        "hooks": {
            "guard": "PY_DROPLETS_VERIF",
            "enable": "no source hooks: checks import /repo's working tree with PYTHONPATH=/repo and replace scipy.optimize / concurrent.futures at the module seam from outside",
            "baseline_off_cmd": "cd /repo && /venv/bin/python -m pytest -ra -q -p no:cacheprovider --timeout=900 --continue-on-collection-errors",
            "source_commits": [],
            "add_only": True,
        },
        "engines": [{
            "name": "mcx", "path": "/verif/mcx",
            "serves_properties": [c["property_id"] for c in checks],
            "kind_free_text": "hand-written stateless explorer for Python: complete enumeration of declared finite spaces "
                              "(input products, operation histories with canonical-state dedupe, completion schedules) executed on the real implementation, "
                              "judged by independent reference models",
        }],
        "checks": checks,
        "not_applicable": na,
        "notes": "All checks: ./check <id> quick|thorough. Known findings: /verif/known_findings.json. Seeded changes: /verif/seeded/.",
    }
    if not na:
        m["not_applicable"] = []
    json.dump(m, open(f"{V}/MANIFEST.json", "w"), indent=1)
    print("claimed", [c["property_id"] for c in checks], "n/a", len(na))

if __name__ == "__main__":
    main()
