"""Regenerate /verif/MANIFEST.json from the table below (only checks whose module exists are claimed)."""
import json, os

V = "/verif"
props = [json.loads(l) for l in open(f"{V}/properties.jsonl")]

# per property: (category, level text, level_note, technique, design_ref)
T = {}
def reg(pid, text, note, technique, ref=None):
    T[pid] = dict(text=text, note=note, technique=technique, ref=ref or f"DESIGN.md §2 {pid}")

COMMON_NOTE = ("Trusted base: the harness' own reference model (numpy only, no droplets/scipy.ndimage/grid.distance), "
               "numpy/scipy/h5py/py-pde as environment; verdict holds for every element of the declared finite space only.")

reg("C12", "Every (dimension, value on a 30-decade lattice, argument form) combination is run through every variant of every conversion "
    "and the droplet accessors on the real code and compared with the closed-form definitions; complete enumeration, no sampling.",
    COMMON_NOTE + " Symbolic 'for all positive reals' is not decided.", "bounded exhaustive input enumeration against reference formulas")

def main():
    checks, na = [], []
    for p in props:
        pid = p["id"]
        if pid in T and os.path.exists(f"{V}/checks/{pid}.py"):
            t = T[pid]
            checks.append({
                "property_id": pid,
                "quick_cmd": f"./check {pid} quick",
                "thorough_cmd": f"./check {pid} thorough",
                "evidence_file": f"/verif/evidence/{pid}.json",
                "replay_cmd_template": f"./check {pid} quick --replay {{path}}",
                "engine": "mcx",
                "level_claimed": {"category": "model_checking", "text": t["text"], "design_ref": t["ref"]},
                "level_note": t["note"],
                "technique": t["technique"],
            })
        else:
            na.append({"property_id": pid, "reason": "check not built yet in this round (planned, see DESIGN.md §2); no claim is made"})
    m = {
        "version": 1,
        "setup_cmd": "./setup.sh",
        "hooks": {
            "guard": "PY_DROPLETS_VERIF",
            "enable": "no source hooks: checks import /repo's working tree with PYTHONPATH=/repo and replace scipy.optimize / concurrent.futures at the module seam from outside",
            "baseline_off_cmd": "cd /repo && /venv/bin/python -m pytest -ra -q -p no:cacheprovider --timeout=900 --continue-on-collection-errors",
            "source_commits": [],
            "add_only": True,
        },
        "engines": [{
            "name": "mcx", "path": "/verif/mcx",
            "serves_properties": [c["property_id"] for c in checks],
            "kind_free_text": "hand-written stateless explorer for Python: complete enumeration of declared finite spaces "
                              "(input products, operation histories with canonical-state dedupe, completion schedules) executed on the real implementation, "
                              "judged by independent reference models",
        }],
        "checks": checks,
        "not_applicable": na,
        "notes": "All checks: ./check <id> quick|thorough. Known findings: /verif/known_findings.json. Seeded changes: /verif/seeded/.",
    }
    if not na:
        m["not_applicable"] = []
    json.dump(m, open(f"{V}/MANIFEST.json", "w"), indent=1)
    print("claimed", [c["property_id"] for c in checks], "n/a", len(na))

if __name__ == "__main__":
    main()
