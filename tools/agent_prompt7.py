"""Wave >= 7 prompt: agent_prompt4 plus a generic request for interaction / rarely-used-path mechanisms."""
import subprocess, sys
pid = sys.argv[1]
base = subprocess.run([sys.executable, '/verif/tools/agent_prompt4.py', pid], capture_output=True, text=True).stdout
print(base.rstrip() + " Prefer mechanisms that only show up through an interaction (two options combined, two objects sharing something, "
      "a second call after a first one, a less commonly used but documented entry point or argument form, an input at the edge of what is valid "
      "such as extreme but legal magnitudes, degenerate-but-legal geometry, or non-default dtypes/containers) rather than a plainly wrong formula.")
