#!/bin/bash
# usage: vet_mutant.sh <seeded-id> <patch> <demo> <property> ; vets a candidate change in a scratch worktree and, if it
# (a) applies, (b) keeps the repo suite green, (c) demo passes on pristine and fails when patched, installs it under /verif/seeded/<id>/
sid="$1"; patch="$2"; demo="$3"; prop="$4"; notes="$5"
wt=/tmp/vet_$sid
git -C /repo worktree add --detach $wt HEAD >/dev/null 2>&1 || { echo "$sid: worktree failed"; exit 1; }
trap 'git -C /repo worktree remove --force '$wt' >/dev/null 2>&1' EXIT
cd $wt
PYTHONPATH=$wt /venv/bin/python -W ignore $demo >/dev/null 2>&1; pristine=$?
git apply $patch || { echo "$sid: patch does not apply"; exit 1; }
PYTHONPATH=$wt /venv/bin/python -W ignore $demo >/tmp/vet_$sid.demo.log 2>&1; patched=$?
PYTHONPATH=$wt /venv/bin/python -m pytest -q -p no:cacheprovider --timeout=900 -n 4 tests >/tmp/vet_$sid.tests.log 2>&1; tests=$?
summary=$(tail -1 /tmp/vet_$sid.tests.log)
echo "$sid: demo pristine=$pristine patched=$patched tests_exit=$tests ($summary)"
if [ $pristine -eq 0 ] && [ $patched -ne 0 ] && [ $tests -eq 0 ]; then
  d=/verif/seeded/$sid; mkdir -p $d
  cp $patch $d/patch.diff; cp $demo $d/demo.py
  cat > $d/meta.json <<J
{"id": "$sid", "property": "$prop", "source": "independent sub-agent given only the property text",
 "vetted": {"applies_to": "$(git -C /repo rev-parse --short HEAD)", "repo_tests": "$summary", "demo_pristine_exit": $pristine, "demo_patched_exit": $patched,
            "commands": ["git apply patch.diff (scratch worktree)", "PYTHONPATH=<wt> /venv/bin/python -m pytest -q -p no:cacheprovider -n 4 tests", "PYTHONPATH=<wt> /venv/bin/python demo.py"]},
 "needs": "see notes.md"}
J
  [ -n "$notes" ] && cp $notes $d/notes.md
  echo "$sid: KEPT"
else
  echo "$sid: REJECTED"
fi
rm -f /tmp/vet_$sid.demo.log /tmp/vet_$sid.tests.log
