#!/bin/bash
for p in "$@"; do
  for x in A B; do
    /verif/tools/vet_mutant.sh $p-w${WAVE:-4}$x /tmp/out_$p/patch$x.diff /tmp/out_$p/demo$x.py $p /tmp/out_$p/notes.md 2>&1 | grep -v "^WARNING conda" | tail -2
  done
  git -C /repo worktree remove --force /tmp/wt_$p 2>/dev/null
done
