"""Wave 8 prompt: agent_prompt7 plus a preference for silent wrong results and aliasing / ordering triggers."""
import subprocess, sys
pid = sys.argv[1]
base = subprocess.run([sys.executable, '/verif/tools/agent_prompt7.py', pid], capture_output=True, text=True).stdout
print(base.rstrip() + " Strongly prefer changes whose effect is a SILENT wrong result (not an exception), and triggers such as: the same object passed in two roles "
      "(aliasing), results depending on the order of earlier calls or on what else lives in the same process, an option that is honoured on one code path "
      "but not on a sibling path, values that are legal but sit exactly on a branch condition (equal radii, equal times, zero, exactly half a period, exactly on a cell boundary), "
      "or inputs given in a less common but documented form (lists instead of arrays, integer dtypes, 0-d arrays, negative steps in slices, keyword vs positional).")
