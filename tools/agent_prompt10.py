"""Wave 10 prompt: agent_prompt7 plus a preference for size thresholds, dtype / memory-layout forms and object life cycles."""
import subprocess, sys
pid = sys.argv[1]
base = subprocess.run([sys.executable, '/verif/tools/agent_prompt7.py', pid], capture_output=True, text=True).stdout
print(base.rstrip() + " Strongly prefer SILENT wrong results. Directions that earlier rounds used little, pick from these where they fit the property: "
      "(a) SIZE THRESHOLDS - a fast path, chunking, cache or buffer that only engages (or only goes wrong) beyond a moderate size, e.g. more than 8-16 droplets "
      "in a collection, more than 10 / 100 frames, more than 16-32 cells along an axis, more than 4 perturbation modes, a cluster larger than half the box; "
      "(b) DATA FORMS - float32 / integer / boolean image data, Fortran-ordered, non-contiguous, broadcast or read-only arrays, positions given as lists, tuples or "
      "integer arrays, numpy scalars vs python scalars, structured-array rows vs records; "
      "(c) LIFE CYCLES - objects that were copied, deep-copied, pickled, sliced, written to and read back from HDF5, or taken out of one collection and put into another "
      "BEFORE the operation in question, and results that are used again as inputs (analysis of an analysis result, tracking of a re-loaded time course); "
      "(d) ARITHMETIC CORNERS - cancellation, overflow or underflow for legal but very large / very small lengths, times or intensities; negative zero; values exactly on "
      "a comparison; (e) code paths selected by the TYPE of an argument (grid family, droplet class, storage kind, string vs number options). "
      "Each of A and B must use a different one of these directions.")
