"""Wave 9 prompt: agent_prompt7 plus a preference for two cooperating sites, rarely used keyword arguments and less common dimensions / grid families."""
import subprocess, sys
pid = sys.argv[1]
base = subprocess.run([sys.executable, '/verif/tools/agent_prompt7.py', pid], capture_output=True, text=True).stdout
print(base.rstrip() + " Strongly prefer SILENT wrong results. Good directions that earlier rounds used little: a change spread over TWO cooperating sites that each look "
      "correct alone (e.g. a helper whose contract is slightly changed and one caller that relies on the old contract); rarely used keyword arguments and "
      "class/instance attributes that callers may set (documented options, tolerances, flags with non-default values); the less common dimensions and grid families "
      "(1-D, 3-D, polar, spherical, cylindrical with or without periodic z, anisotropic or shifted boxes); sizes at the edge of validity (single-cell clusters, "
      "droplets as large as the box, exactly touching droplets, empty collections in the middle of a sequence); and properties of RESULTS that outlive the call "
      "(returned objects that share memory with inputs or with each other, results that change when an input is modified afterwards).")
