#!/bin/bash
# usage: tools/seeded_parallel.sh <grep pattern> [parallel=4] ; runs every matching seeded change against its own property's quick
# check, <parallel> at a time with MCX_JOBS=4 each; prints one DETECTED/MISSED line per change (sorted).
cd /verif
pat="${1:-.}"; par="${2:-4}"
ls seeded | grep -v RESULTS | grep -E "$pat" | xargs -P "$par" -I{} bash -c '
  s={}; p=${s%%-*}
  cw=$(python3 -c "import json,sys; print(json.load(open(\"seeded/$s/meta.json\")).get(\"check_with\",\"\"))" 2>/dev/null); [ -n "$cw" ] && p=$cw
  MCX_JOBS=4 tools/run_seeded.sh $s $p 2>&1 | grep "DETECTED\|MISSED\|APPLY\|failed" | head -1' | sort
