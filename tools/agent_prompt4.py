"""Wave >= 4 prompt: as agent_prompt.py plus a hint which code sites earlier rounds already changed (for diversity)."""
import glob, json, re, subprocess, sys
pid = sys.argv[1]
base = subprocess.run([sys.executable, '/verif/tools/agent_prompt.py', pid], capture_output=True, text=True).stdout
sites = set()
for f in glob.glob(f'/verif/seeded/{pid}-*/patch.diff'):
    for l in open(f):
        if l.startswith('@@'):
            m = re.sub(r'^@@[^@]*@@ ', '', l.strip())
            if m and not m.startswith(('from ', 'import ', '_logger', 'The details')):
                sites.add(m[:80])
hint = ("\n\nDiversity hint: earlier rounds already produced changes for this property inside: " + "; ".join(sorted(sites)) +
        ". Pick DIFFERENT mechanisms and, where possible, different functions/code paths (other grid families, other dimensions, other classes, "
        "other option combinations, interactions between two features, state carried from one call to the next).") if sites else ""
print(base.rstrip() + hint)
