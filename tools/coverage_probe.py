"""Approximate statement coverage of droplets/* under the checks: runs the first N cases of every block of every check
in ONE process (forks replaced by inline calls) under coverage.py.  Diagnostic only - not part of any check."""
import importlib, itertools, os, sys, logging, warnings
import coverage

N = int(os.environ.get("COV_N", "25"))
cov = coverage.Coverage(source=["/repo/droplets"], data_file="/tmp/covprobe.dat")
cov.start()
logging.disable(logging.CRITICAL); warnings.simplefilter("ignore")
import numpy as np
np.seterr(all="ignore")
sys.path.insert(0, "/verif")
from mcx import core
core.in_fork = lambda fn: fn()          # inline instead of fork
import signal
signal.signal(signal.SIGALRM, lambda *a: (_ for _ in ()).throw(core.CaseTimeout()))
pids = sys.argv[1:] or [f"C{i:02d}" for i in range(1, 21)]
for pid in pids:
    mod = importlib.import_module(f"checks.{pid}")
    core._MOD = mod
    if hasattr(mod, "setup"):
        try: mod.setup("quick", 0)
        except Exception as e: print(pid, "setup failed", e)
    ctx = core.Ctx(pid)
    nb = 0
    if pid == "C15":
        from mcx import sched
        for name, sc in mod.scenarios("quick").items():
            mod.safe_call(sc, 1); ctx.cases += 1
        sched.install()
        for name, sc in mod.scenarios("quick").items():
            mod.safe_call(sc, 2); ctx.cases += 1
        sched.uninstall()
    for block in mod.blocks("quick", 0):
        nb += 1
        try:
            if pid == "C20":
                mod.run_block(dict(block, depth=2), ctx)
                continue
            if pid == "C15":
                continue
            if hasattr(mod, "run_block") and not hasattr(mod, "cases"):
                continue
            for case in itertools.islice(mod.cases(block), N):
                core.run_one(mod, case, ctx)
        except Exception as e:
            pass
    print(pid, "blocks", nb, "cases", ctx.cases, "viol", ctx.nviol, flush=True)
cov.stop(); cov.save()
cov.report(show_missing=True, file=open("/tmp/covprobe.txt", "w"))
print(open("/tmp/covprobe.txt").read()[-3000:])
