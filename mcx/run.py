"""CLI: python -m mcx.run C07 --tier quick|thorough [--replay FILE] [--jobs N]"""
import argparse
import os
import sys


def main():
    ap = argparse.ArgumentParser()
    ap.add_argument("pid")
    ap.add_argument("--tier", default=os.environ.get("VERIF_TIER", "quick"), choices=["quick", "thorough"])
    ap.add_argument("--replay")
    ap.add_argument("--jobs", type=int, default=None)
    args = ap.parse_args()
    seed = int(os.environ.get("VERIF_SEED", "0") or 0)
    import logging
    import warnings

    logging.disable(logging.CRITICAL)
    warnings.simplefilter("ignore")
    import numpy as np

    np.seterr(all="ignore")
    from mcx import core

    if args.replay:
        sys.exit(core.replay(args.pid, args.replay))
    mod, total = core.explore(args.pid, args.tier, seed, jobs=args.jobs)
    sys.exit(core.report(mod, total, args.tier, seed))


if __name__ == "__main__":
    main()
