"""Controlled virtual-time worker pool + exhaustive enumeration of completion schedules (C15).

The real library code creates `concurrent.futures.ProcessPoolExecutor(max_workers=k)` (imported inside the function at call
time) and consumes it through `Executor.map`.  `install()` replaces, from outside the library, the executor classes,
`as_completed`, `wait` (and `multiprocessing.Pool`) by virtual versions that share one scheduler:

* `submit` queues a task; idle workers take queued tasks FIFO (lowest free worker first), exactly as a k-process pool does.
* A task is *executed* when it is dispatched, inside a real forked worker process that persists for the life of the
  executor (so per-worker module state carries over from one task to the next on the same worker, callables, arguments and
  results cross a real pickle boundary and nothing a task does can leak into the parent).  Its *completion* is withheld.
* Whenever the consumer blocks (`Future.result`, `as_completed`, `wait`, a `done()` poll, executor shutdown, the iterator
  returned by `map`, `AsyncResult.get`, ...) the scheduler releases ONE completion among the tasks currently running; which
  one is a choice point.  The freed worker immediately takes the next queued task.
* `explore(run)` enumerates every choice sequence depth-first (replaying a prefix, then taking choice 0), i.e. every
  feasible completion order of the n tasks on k FIFO workers: k!*k^(n-k) for k <= n, n! for k >= n (asserted by
  `selftest`).  Executions always run to completion; a divergence while replaying a prefix is a hard error.

Nothing here is sampled and no real time is involved.
"""
from __future__ import annotations

import collections
import concurrent.futures as cf
import itertools
import math
import multiprocessing as mp
import multiprocessing.pool as mpp
import os
import pickle
import sys
import traceback


class ScheduleDivergence(Exception):
    pass


class VirtualDeadlock(Exception):
    pass


class Chooser:
    """Replays a prefix of choices, then takes choice 0; records (choice, n_options) for every choice point."""

    def __init__(self, prefix=()):
        self.prefix = list(prefix)
        self.trace = []  # (choice, n_options, option labels)
        self.order = []  # completion order (task indices)
        self.submits = 0
        self.executors = 0
        self.workers_used = 0
        self.kinds = collections.Counter()

    def choose(self, labels):
        n = len(labels)
        i = len(self.trace)
        if i < len(self.prefix):
            c = self.prefix[i]
            if c >= n:
                raise ScheduleDivergence(f"replaying choice {c} at point {i} but only {n} option(s) {labels}")
        else:
            c = 0
        self.trace.append((c, n, tuple(labels)))
        return c


_STATE = {"chooser": None, "installed": False, "orig": {}}


def current():
    ch = _STATE["chooser"]
    if ch is None:
        ch = _STATE["chooser"] = Chooser()
    return ch


# ----------------------------------------------------------------------
# worker processes
# ----------------------------------------------------------------------
class ForkWorker:
    """A real forked process executing pickled calls one at a time."""

    def __init__(self, initializer=None, initargs=()):
        self.parent, child = mp.Pipe(duplex=True)
        sys.stdout.flush()
        sys.stderr.flush()
        pid = os.fork()
        if pid == 0:
            code = 0
            try:
                self.parent.close()
                _STATE["chooser"] = Chooser()  # nested pools inside a worker run the default schedule
                if initializer is not None:
                    initializer(*initargs)
                while True:
                    try:
                        blob = child.recv_bytes()
                    except EOFError:
                        break
                    if not blob:  # explicit stop message (EOF alone is unreliable: later-forked siblings inherit our pipe)
                        break
                    try:
                        fn, args, kwargs = pickle.loads(blob)
                        out = (True, fn(*args, **kwargs))
                    except BaseException as exc:  # noqa: BLE001
                        out = (False, exc, traceback.format_exc())
                    try:
                        payload = pickle.dumps(out, protocol=pickle.HIGHEST_PROTOCOL)
                    except BaseException as exc:  # noqa: BLE001
                        payload = pickle.dumps((False, RuntimeError(f"unpicklable result: {exc!r}"), ""))
                    child.send_bytes(payload)
            except BaseException:  # noqa: BLE001
                code = 1
            finally:
                os._exit(code)
        child.close()
        self.pid = pid

    def run(self, blob):
        self.parent.send_bytes(blob)
        try:
            return pickle.loads(self.parent.recv_bytes())
        except EOFError:
            return (False, RuntimeError("virtual worker died"), "")

    def close(self):
        try:
            self.parent.send_bytes(b"")
        except Exception:
            pass
        try:
            self.parent.close()
        except Exception:
            pass
        try:
            os.waitpid(self.pid, 0)
        except ChildProcessError:
            pass


class InprocWorker:
    """Thread-pool stand-in: the call runs in the consumer's process (shared memory), atomically at dispatch."""

    def __init__(self, initializer=None, initargs=()):
        if initializer is not None:
            initializer(*initargs)

    def run(self, call):
        fn, args, kwargs = call
        try:
            return (True, fn(*args, **kwargs))
        except BaseException as exc:  # noqa: BLE001
            return (False, exc, traceback.format_exc())

    def close(self):
        pass


# ----------------------------------------------------------------------
# scheduler core
# ----------------------------------------------------------------------
class _Task:
    __slots__ = ("idx", "call", "outcome", "on_done", "worker")

    def __init__(self, idx, call, on_done):
        self.idx, self.call, self.on_done = idx, call, on_done
        self.outcome = None
        self.worker = None


class VPool:
    def __init__(self, k, kind="process", initializer=None, initargs=()):
        self.k = max(1, int(k))
        self.kind = kind
        self.queue = collections.deque()
        self.running = {}
        self.free = list(range(self.k))
        self.workers = {}
        self.ntasks = 0
        self.closed = False
        self.init = (initializer, initargs)
        ch = current()
        ch.executors += 1
        ch.kinds[kind] += 1

    def submit(self, fn, args, kwargs, on_done):
        if self.closed:
            raise RuntimeError("cannot schedule new futures after shutdown")
        ch = current()
        ch.submits += 1
        if self.kind == "process":
            call = pickle.dumps((fn, args, kwargs), protocol=pickle.HIGHEST_PROTOCOL)
        else:
            call = (fn, args, kwargs)
        t = _Task(self.ntasks, call, on_done)
        self.ntasks += 1
        self.queue.append(t)
        self._dispatch()
        return t

    def _dispatch(self):
        while self.queue and self.free:
            w = self.free.pop(0)
            t = self.queue.popleft()
            if w not in self.workers:
                self.workers[w] = (ForkWorker if self.kind == "process" else InprocWorker)(*self.init)
                current().workers_used += 1
            t.worker = w
            t.outcome = self.workers[w].run(t.call)
            t.call = None
            self.running[w] = t

    def pending(self):
        return bool(self.running or self.queue)

    def step(self):
        """Release one completion (a choice point when more than one task is running)."""
        if not self.running:
            if self.queue:
                raise VirtualDeadlock("tasks queued but no worker running")
            return False
        opts = sorted(self.running.items(), key=lambda it: it[1].idx)
        c = current().choose([t.idx for _, t in opts])
        w, t = opts[c]
        del self.running[w]
        self.free.append(w)
        self.free.sort()
        self._dispatch()
        current().order.append(t.idx)
        t.on_done(t.outcome)
        return True

    def drain(self):
        while self.step():
            pass

    def cancel_queued(self):
        dropped = list(self.queue)
        self.queue.clear()
        return dropped

    def close(self):
        self.closed = True
        for w in self.workers.values():
            w.close()
        self.workers = {}


# ----------------------------------------------------------------------
# concurrent.futures front end
# ----------------------------------------------------------------------
class VFuture(cf.Future):
    def __init__(self, pool):
        super().__init__()
        self._vpool = pool

    def _finish(self, outcome):
        if self.cancelled():
            return
        if not self.running():
            self.set_running_or_notify_cancel()
        if outcome[0]:
            self.set_result(outcome[1])
        else:
            self.set_exception(outcome[1])

    def _advance_until_done(self):
        while not cf.Future.done(self):
            if not self._vpool.step():
                raise VirtualDeadlock("waiting for a future that can never complete")

    def result(self, timeout=None):
        self._advance_until_done()
        return super().result(0)

    def exception(self, timeout=None):
        self._advance_until_done()
        return super().exception(0)

    def done(self):
        if not super().done():
            self._vpool.step()  # a poll lets virtual time pass: one more completion may land
        return super().done()


def _process_chunk(fn, chunk):
    return [fn(*args) for args in chunk]


def _get_chunks(*iterables, chunksize):
    it = zip(*iterables)
    while True:
        chunk = tuple(itertools.islice(it, chunksize))
        if not chunk:
            return
        yield chunk


class _VExecutorBase(cf.Executor):
    _kind = "process"

    def __init__(self, max_workers=None, *a, initializer=None, initargs=(), **kw):
        if max_workers is None:
            max_workers = os.cpu_count() or 1
            if self._kind == "thread":
                max_workers = min(32, max_workers + 4)
        if max_workers <= 0:
            raise ValueError("max_workers must be greater than 0")
        self._max_workers = max_workers
        self._vpool = VPool(max_workers, self._kind, initializer, initargs)
        self._shutdown = False

    def submit(self, fn, /, *args, **kwargs):
        if self._shutdown:
            raise RuntimeError("cannot schedule new futures after shutdown")
        fut = VFuture(self._vpool)
        self._vpool.submit(fn, args, kwargs, fut._finish)
        return fut

    def shutdown(self, wait=True, *, cancel_futures=False):
        if self._shutdown:
            return
        self._shutdown = True
        if cancel_futures:
            for t in self._vpool.cancel_queued():
                t.on_done.__self__.cancel()
        # workers finish whatever they accepted whether or not the caller waits
        self._vpool.drain()
        self._vpool.close()


class VProcessPoolExecutor(_VExecutorBase):
    _kind = "process"

    def __init__(self, max_workers=None, mp_context=None, initializer=None, initargs=(), *, max_tasks_per_child=None):
        super().__init__(max_workers, initializer=initializer, initargs=initargs)

    def map(self, fn, *iterables, timeout=None, chunksize=1):
        if chunksize < 1:
            raise ValueError("chunksize must be >= 1.")
        if chunksize == 1:
            return super().map(fn, *iterables, timeout=timeout)
        import functools

        results = super().map(functools.partial(_process_chunk, fn), _get_chunks(*iterables, chunksize=chunksize), timeout=timeout)
        return itertools.chain.from_iterable(results)


class VThreadPoolExecutor(_VExecutorBase):
    _kind = "thread"

    def __init__(self, max_workers=None, thread_name_prefix="", initializer=None, initargs=()):
        super().__init__(max_workers, initializer=initializer, initargs=initargs)


def _pools_of(fs):
    pools = []
    for f in fs:
        p = getattr(f, "_vpool", None)
        if p is not None and p not in pools:
            pools.append(p)
    return pools


def v_as_completed(fs, timeout=None):
    fs = list(dict.fromkeys(fs))
    yielded = set()

    def gen():
        while len(yielded) < len(fs):
            ready = [f for f in fs if id(f) not in yielded and cf.Future.done(f)]
            if not ready:
                pools = [p for p in _pools_of(fs) if p.running or p.queue]
                if not pools:
                    raise VirtualDeadlock("as_completed: futures can never complete")
                pools[0].step()
                continue
            # at most one future completes per step; futures already finished at call time are reported in argument order
            for f in ready:
                yielded.add(id(f))
                yield f

    return gen()


def v_wait(fs, timeout=None, return_when=cf.ALL_COMPLETED):
    fs = list(dict.fromkeys(fs))

    def satisfied():
        done = [f for f in fs if cf.Future.done(f)]
        if return_when == cf.FIRST_COMPLETED:
            return len(done) >= 1
        if return_when == cf.FIRST_EXCEPTION:
            if any((not f.cancelled()) and cf.Future.exception(f, 0) is not None for f in done):
                return True
        return len(done) == len(fs)

    while not satisfied():
        pools = [p for p in _pools_of(fs) if p.running or p.queue]
        if not pools:
            break
        pools[0].step()
    done = {f for f in fs if cf.Future.done(f)}
    return cf._base.DoneAndNotDoneFutures(done, set(fs) - done)


# ----------------------------------------------------------------------
# multiprocessing.Pool front end
# ----------------------------------------------------------------------
class VAsyncResult:
    def __init__(self, pool, n, callback=None, error_callback=None, single=False):
        self._vpool = pool
        self._vals = [None] * n
        self._left = n
        self._err = None
        self._single = single
        self._cb, self._ecb = callback, error_callback

    def _slot(self, i):
        def on_done(outcome):
            if outcome[0]:
                self._vals[i] = outcome[1]
            elif self._err is None:
                self._err = outcome[1]
            self._left -= 1
            if self._left == 0:
                if self._err is None and self._cb:
                    self._cb(self._value())
                if self._err is not None and self._ecb:
                    self._ecb(self._err)

        return on_done

    def _value(self):
        if self._single:
            return self._vals[0]
        return [x for chunk in self._vals for x in chunk]

    def ready(self):
        if self._left:
            self._vpool.step()
        return self._left == 0

    def successful(self):
        if self._left:
            raise ValueError("not ready")
        return self._err is None

    def wait(self, timeout=None):
        while self._left:
            if not self._vpool.step():
                raise VirtualDeadlock("AsyncResult can never complete")

    def get(self, timeout=None):
        self.wait()
        if self._err is not None:
            raise self._err
        return self._value()


def _mapstar(fn, chunk):
    return [fn(x) for x in chunk]


def _starmapstar(fn, chunk):
    return [fn(*x) for x in chunk]


class VMPPool:
    def __init__(self, processes=None, initializer=None, initargs=(), maxtasksperchild=None, context=None):
        if processes is None:
            processes = os.cpu_count() or 1
        if processes < 1:
            raise ValueError("Number of processes must be at least 1")
        self._processes = processes
        self._vpool = VPool(processes, "process", initializer, initargs)

    def _chunks(self, iterable, chunksize):
        items = list(iterable)
        if chunksize is None:
            chunksize, extra = divmod(len(items), self._processes * 4)
            if extra:
                chunksize += 1
        chunksize = max(1, chunksize)
        return [tuple(items[i : i + chunksize]) for i in range(0, len(items), chunksize)]

    def _map_async(self, fn, iterable, chunksize, star, callback=None, error_callback=None):
        chunks = self._chunks(iterable, chunksize)
        res = VAsyncResult(self._vpool, len(chunks), callback, error_callback)
        if not chunks and callback:
            callback([])
        for i, ch in enumerate(chunks):
            self._vpool.submit(_starmapstar if star else _mapstar, (fn, ch), {}, res._slot(i))
        return res

    def map(self, func, iterable, chunksize=None):
        return self._map_async(func, iterable, chunksize, False).get()

    def starmap(self, func, iterable, chunksize=None):
        return self._map_async(func, iterable, chunksize, True).get()

    def map_async(self, func, iterable, chunksize=None, callback=None, error_callback=None):
        return self._map_async(func, iterable, chunksize, False, callback, error_callback)

    def starmap_async(self, func, iterable, chunksize=None, callback=None, error_callback=None):
        return self._map_async(func, iterable, chunksize, True, callback, error_callback)

    def apply_async(self, func, args=(), kwds=None, callback=None, error_callback=None):
        res = VAsyncResult(self._vpool, 1, callback, error_callback, single=True)
        self._vpool.submit(func, tuple(args), dict(kwds or {}), res._slot(0))
        return res

    def apply(self, func, args=(), kwds=None):
        return self.apply_async(func, args, kwds).get()

    def imap(self, func, iterable, chunksize=1):
        chunks = self._chunks(iterable, chunksize)
        results = []
        for ch in chunks:
            r = VAsyncResult(self._vpool, 1, single=True)
            self._vpool.submit(_mapstar, (func, ch), {}, r._slot(0))
            results.append(r)

        def gen():
            for r in results:
                yield from r.get()

        return gen()

    def imap_unordered(self, func, iterable, chunksize=1):
        chunks = self._chunks(iterable, chunksize)
        finished = collections.deque()
        state = {"left": len(chunks)}

        def on_done(outcome):
            finished.append(outcome)

        for ch in chunks:
            self._vpool.submit(_mapstar, (func, ch), {}, on_done)

        def gen():
            while state["left"]:
                while not finished:
                    if not self._vpool.step():
                        raise VirtualDeadlock("imap_unordered can never complete")
                out = finished.popleft()
                state["left"] -= 1
                if not out[0]:
                    raise out[1]
                yield from out[1]

        return gen()

    def close(self):
        self._vpool.closed = True

    def terminate(self):
        self._vpool.cancel_queued()
        self._vpool.drain()
        self._vpool.close()

    def join(self):
        self._vpool.drain()
        self._vpool.close()

    def __enter__(self):
        return self

    def __exit__(self, *exc):
        self.terminate()


class _VContext:
    """Stands in for multiprocessing.get_context(...): only Pool is virtualised."""

    def __init__(self, real):
        self._real = real

    def Pool(self, processes=None, initializer=None, initargs=(), maxtasksperchild=None):
        return VMPPool(processes, initializer, initargs, maxtasksperchild)

    def __getattr__(self, name):
        return getattr(self._real, name)


# ----------------------------------------------------------------------
# installation at the module seam
# ----------------------------------------------------------------------
_PATCH = [
    (cf, "ProcessPoolExecutor", VProcessPoolExecutor),
    (cf, "ThreadPoolExecutor", VThreadPoolExecutor),
    (cf, "as_completed", v_as_completed),
    (cf, "wait", v_wait),
    (mp, "Pool", VMPPool),
    (mpp, "Pool", VMPPool),
]


def install(extra_modules=()):
    """Replace the executor entry points (module attributes and any name already bound in the given modules)."""
    if _STATE["installed"]:
        return
    import concurrent.futures.process as cfp
    import concurrent.futures.thread as cft

    orig = _STATE["orig"]
    patch = list(_PATCH) + [(cfp, "ProcessPoolExecutor", VProcessPoolExecutor), (cft, "ThreadPoolExecutor", VThreadPoolExecutor)]
    for mod, name, new in patch:
        orig[(mod, name)] = getattr(mod, name)
        setattr(mod, name, new)
    real_get_context = mp.get_context
    orig[(mp, "get_context")] = real_get_context
    mp.get_context = lambda method=None: _VContext(real_get_context(method))
    # names the library may have bound at import time
    olds = {id(v): new for (mod, name), v in orig.items() for m2, n2, new in patch if m2 is mod and n2 == name}
    for m in extra_modules:
        for attr, val in list(vars(m).items()):
            if id(val) in olds and not attr.startswith("__"):
                orig[(m, attr)] = val
                setattr(m, attr, olds[id(val)])
    _STATE["installed"] = True


def uninstall():
    for (mod, name), val in _STATE["orig"].items():
        setattr(mod, name, val)
    _STATE["orig"] = {}
    _STATE["installed"] = False


# ----------------------------------------------------------------------
# exhaustive exploration
# ----------------------------------------------------------------------
def run_schedule(fn, prefix):
    """Run fn() under the schedule `prefix + zeros`; return (result, chooser)."""
    ch = Chooser(prefix)
    _STATE["chooser"] = ch
    try:
        res = fn()
    finally:
        _STATE["chooser"] = None
    if len(ch.trace) < len(ch.prefix):
        raise ScheduleDivergence(f"execution ended after {len(ch.trace)} choice points while replaying a prefix of {len(ch.prefix)}")
    return res, ch


def explore(fn, limit=None):
    """Yield (choices, result, chooser) for every schedule of fn (depth-first, default-first)."""
    stack = [[]]
    n = 0
    while stack:
        prefix = stack.pop()
        res, ch = run_schedule(fn, prefix)
        choices = [c for c, _, _ in ch.trace]
        for i, (c, k, lab) in enumerate(ch.trace[: len(prefix)]):
            if c != prefix[i]:
                raise ScheduleDivergence("prefix not replayed")
        alts = []
        for i in range(len(prefix), len(ch.trace)):
            for alt in range(1, ch.trace[i][1]):
                alts.append(choices[:i] + [alt])
        stack.extend(reversed(alts))
        n += 1
        yield choices, res, ch
        if limit is not None and n >= limit:
            return


def closed_form(n, k):
    """Number of completion orders of n tasks submitted up front to k FIFO workers."""
    if n == 0:
        return 1
    if k >= n:
        return math.factorial(n)
    return k ** (n - k) * math.factorial(k)


def _ident(x):
    return x


def selftest(ns=(0, 1, 2, 3, 4), ks=(1, 2, 3, 4, 5)):
    """Enumerator vs. closed form on a trivial function (independent of the library); returns the table."""
    install()
    table = {}
    for n in ns:
        for k in ks:

            def body():
                out = []
                with cf.ProcessPoolExecutor(max_workers=k) as ex:
                    futs = [ex.submit(_ident, i) for i in range(n)]
                    for f in cf.as_completed(futs):
                        out.append(f.result())
                return tuple(out)

            orders = [res for _, res, _ in explore(body)]
            assert len(set(orders)) == len(orders), ("duplicate schedule", n, k)
            assert len(orders) == closed_form(n, k), (n, k, len(orders), closed_form(n, k))
            # ordered consumption must hide the order
            def body2():
                with cf.ProcessPoolExecutor(max_workers=k) as ex:
                    return tuple(ex.map(_ident, range(n)))

            outs = {res for _, res, _ in explore(body2)}
            assert outs == {tuple(range(n))}, outs
            table[f"n={n},k={k}"] = len(orders)
    return table
