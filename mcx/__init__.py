"""mcx - bounded exhaustive exploration engine for the py-droplets checks."""
