"""Engine: block-sharded exhaustive enumeration, result merging, findings, evidence.

A check module (checks/Cxx.py) provides

    PID, RULE, ASSUMPTIONS, LEVEL_NOTE (strings / lists)
    blocks(tier, seed)      -> list of JSON-able block descriptors (pairwise distinct)
    cases(block)            -> iterator of JSON-able case dicts (deterministic, simplest first)
    run_case(case, ctx)     -> evaluates the oracle through ctx.check(...)
    (optional) run_block(block, ctx) to override the default loop (used by BFS checks)
    (optional) post(ctx_total, tier) -> extra self-test of non-vacuity counters

Nothing here samples: every case generated is executed and judged.
"""
from __future__ import annotations

import collections
import contextlib
import hashlib
import importlib
import json
import math
import multiprocessing as mp
import os
import signal
import sys
import time
import traceback

VERIF = os.path.dirname(os.path.dirname(os.path.abspath(__file__)))
REPO = os.environ.get("MCX_REPO", "/repo")
CASE_TIMEOUT = int(os.environ.get("MCX_CASE_TIMEOUT", "120"))
MAX_VIOL_PER_BLOCK = 40


def jdefault(o):
    import numpy as np

    if isinstance(o, np.generic):
        return o.item()
    if isinstance(o, np.ndarray):
        return o.tolist()
    if isinstance(o, (set, frozenset)):
        return sorted(o)
    if isinstance(o, tuple):
        return list(o)
    return repr(o)


def jdump(o, **kw):
    return json.dumps(o, default=jdefault, sort_keys=True, **kw)


def case_hash(case):
    return hashlib.blake2b(jdump(case).encode(), digest_size=8).hexdigest()


class CaseTimeout(Exception):
    pass


def _alarm(signum, frame):
    raise CaseTimeout()


class Ctx:
    """Per-block accumulator (merged by the parent in block order)."""

    def __init__(self, pid):
        self.pid = pid
        self.clauses = collections.Counter()
        self.counters = collections.Counter()
        self.skipped = collections.Counter()
        self.viol = []
        self.nviol = 0
        self.vclauses = collections.Counter()
        self.cases = 0
        self.nontrivial = 0
        self.transitions = 0
        self.states = 0
        self.samples = []
        self._cur = None
        self._last = None
        self._hashes = set()
        self.dedupe = True

    # -- bookkeeping ---------------------------------------------------
    def begin(self, case, nontrivial=True):
        self._cur = case
        self.cases += 1
        if self.dedupe:
            h = case_hash(case)
            new = h not in self._hashes
            self._hashes.add(h)
        else:
            new = True
        if new:
            self.states += 1
            if nontrivial:
                self.nontrivial += 1
        if len(self.samples) < 1:
            self.samples.append(case)
        self._last = case

    def op(self, n=1):
        self.transitions += n

    def count(self, name, n=1):
        self.counters[name] += n

    def skip(self, reason):
        self.skipped[reason] += 1

    def check(self, clause, ok, detail=None, tags=None, case=None):
        """Record one oracle evaluation; ok=False is a violation."""
        if not (ok is True or ok is False or type(ok).__name__ in ("bool_", "bool")):
            # a verdict that is not a boolean is a harness bug (e.g. a shifted argument list): fail loudly, never pass silently
            raise TypeError(f"verdict of clause {clause} is {type(ok).__name__}, not bool")
        ok = bool(ok)
        self.clauses[clause] += 1
        if ok:
            return True
        self.nviol += 1
        self.vclauses[clause + ("|" + jdump(tags) if tags else "")] += 1
        if len(self.viol) < MAX_VIOL_PER_BLOCK:
            self.viol.append(
                {
                    "property": self.pid,
                    "clause": clause,
                    "case": case if case is not None else self._cur,
                    "detail": detail,
                    "tags": tags or {},
                }
            )
        return False

    def finish(self):
        if self._last is not None and (not self.samples or self.samples[-1] is not self._last):
            self.samples.append(self._last)
        self._hashes = None
        self._cur = self._last = None


def in_fork(fn):
    """Run fn() in a freshly forked copy of this process (so nothing it leaves behind - caches, mutated module state -
    survives, and nothing run earlier in a *sibling* fork is visible); returns fn's pickled result."""
    import pickle

    r, w = os.pipe()
    sys.stdout.flush()
    sys.stderr.flush()
    pid = os.fork()
    if pid == 0:
        code = 0
        try:
            os.close(r)
            signal.alarm(0)
            try:
                out = (True, fn())
            except BaseException:  # noqa: BLE001
                out = (False, traceback.format_exc()[-1500:])
            with os.fdopen(w, "wb") as fp:
                pickle.dump(out, fp)
        except BaseException:  # noqa: BLE001
            code = 1
        finally:
            os._exit(code)
    os.close(w)
    with os.fdopen(r, "rb") as fp:
        data = fp.read()
    os.waitpid(pid, 0)
    if not data:
        raise RuntimeError("forked child died without a result")
    ok, val = pickle.loads(data)
    if not ok:
        raise RuntimeError("forked child raised:\n" + val)
    return val


def run_sequence_in_fork(run_case, cases, ctx, tag=None):
    """History check: run the given cases one after the other in ONE freshly forked process, each judged by the check's
    ordinary oracle; clause evaluations / violations are merged into ctx (violations carry the whole sequence as case)."""

    def body():
        sub = Ctx(ctx.pid)
        for c in cases:
            sub._cur = {"sequence": cases, "at": c}
            run_case(c, sub)
        return sub.clauses, sub.counters, sub.skipped, sub.viol, sub.nviol, sub.vclauses, sub.transitions

    clauses, counters, skipped, viol, nviol, vclauses, transitions = in_fork(body)
    ctx.clauses.update(clauses)
    ctx.counters.update(counters)
    ctx.skipped.update(skipped)
    ctx.nviol += nviol
    ctx.vclauses.update(vclauses)
    ctx.transitions += transitions
    for v in viol:
        v["case"] = {"sequence": cases}
        if tag:
            v["tags"] = dict(v.get("tags") or {}, **tag)
        if len(ctx.viol) < MAX_VIOL_PER_BLOCK:
            ctx.viol.append(v)


_MOD = None


def _run_block(arg):
    idx, block = arg
    mod = _MOD
    ctx = Ctx(mod.PID)
    ctx.dedupe = getattr(mod, "DEDUPE", True)
    t0 = time.time()
    signal.signal(signal.SIGALRM, _alarm)
    try:
        if hasattr(mod, "run_block"):
            mod.run_block(block, ctx)
        else:
            for case in mod.cases(block):
                run_one(mod, case, ctx)
    except Exception:
        ctx.check(
            mod.PID + ".exception-escaped",
            False,
            detail=traceback.format_exc()[-1500:],
            case={"block": block},
        )
    signal.alarm(0)
    ctx.finish()
    ctx.wall = time.time() - t0
    return idx, ctx


def run_one(mod, case, ctx, nontrivial=True):
    """Run one case under a watchdog; unexpected exceptions become violations."""
    ctx.begin(case, nontrivial)
    signal.alarm(CASE_TIMEOUT)
    try:
        mod.run_case(case, ctx)
    except CaseTimeout:
        ctx.check(mod.PID + ".terminates", False, detail=f"no result within {CASE_TIMEOUT}s")
    except Exception:
        ctx.check(mod.PID + ".exception-escaped", False, detail=traceback.format_exc()[-1500:])
    finally:
        signal.alarm(0)


# ----------------------------------------------------------------------
# known findings
# ----------------------------------------------------------------------
def load_findings():
    path = os.path.join(VERIF, "known_findings.json")
    with open(path) as fp:
        return json.load(fp)


def match_finding(v, findings):
    for f in findings.get("known", []):
        if f["property"] != v["property"]:
            continue
        cl = f.get("clause")
        if cl is not None:
            cls = cl if isinstance(cl, list) else [cl]
            if v["clause"] not in cls:
                continue
        tags = v.get("tags") or {}
        if all(tags.get(k) == val for k, val in f.get("match", {}).items()):
            return f
    return None


# ----------------------------------------------------------------------
# main driver
# ----------------------------------------------------------------------
def load_check(pid):
    sys.path.insert(0, VERIF)
    return importlib.import_module(f"checks.{pid}")


def assert_repo():
    import droplets

    path = os.path.realpath(droplets.__file__)
    if not path.startswith(os.path.realpath(REPO) + os.sep):
        print(f"HARNESS-ERROR: droplets imported from {path}, expected under {REPO}")
        sys.exit(2)
    return path


def explore(pid, tier, seed, jobs=None):
    global _MOD
    t0 = time.time()
    mod = load_check(pid)
    _MOD = mod
    src = assert_repo()
    if hasattr(mod, "setup"):
        mod.setup(tier, seed)
    blocks = list(mod.blocks(tier, seed))
    flt = os.environ.get("MCX_BLOCK_FILTER")
    if flt:  # debugging aid only
        blocks = [b for b in blocks if flt in jdump(b)]
    keys = [jdump(b) for b in blocks]
    assert len(set(keys)) == len(keys), "block descriptors must be pairwise distinct"
    jobs = jobs or int(os.environ.get("MCX_JOBS", "0")) or min(16, os.cpu_count() or 1)
    results = [None] * len(blocks)
    if jobs == 1 or len(blocks) == 1:
        for i, b in enumerate(blocks):
            results[i] = _run_block((i, b))[1]
    else:
        # longest-first is not known; keep the declared order, small chunks
        fresh = 1 if getattr(mod, "FRESH_WORKER_PER_BLOCK", False) else None  # every block in a new fork of this process
        with mp.get_context("fork").Pool(jobs, maxtasksperchild=fresh) as pool:
            for idx, ctx in pool.imap_unordered(_run_block, list(enumerate(blocks)), chunksize=1):
                results[idx] = ctx
    total = Ctx(pid)
    total.block_walls = []
    for ctx in results:
        total.clauses.update(ctx.clauses)
        total.vclauses.update(ctx.vclauses)
        total.counters.update(ctx.counters)
        total.skipped.update(ctx.skipped)
        total.viol.extend(ctx.viol)
        total.nviol += ctx.nviol
        total.cases += ctx.cases
        total.nontrivial += ctx.nontrivial
        total.transitions += ctx.transitions
        total.states += ctx.states
        total.block_walls.append(round(ctx.wall, 2))
        if len(total.samples) < 2 or ctx is results[-1] or ctx is results[len(results) // 2]:
            total.samples.extend(ctx.samples[:1] if len(total.samples) >= 2 else ctx.samples)
    total.nblocks = len(blocks)
    if os.environ.get("MCX_TIMING"):
        order = sorted(range(len(blocks)), key=lambda i: -results[i].wall)[:12]
        for i in order:
            print(f"TIMING block {i} wall={results[i].wall:.1f}s cases={results[i].cases} {jdump(blocks[i])[:200]}")
    total.src = src
    total.wall = time.time() - t0
    return mod, total


def report(mod, total, tier, seed):
    """Print VIOLATION / KNOWN-FINDING lines, write replays and evidence; return exit code."""
    pid = mod.PID
    findings = load_findings()
    unmatched, known = [], collections.OrderedDict()
    for v in total.viol:
        f = match_finding(v, findings)
        if f is None:
            unmatched.append(v)
        else:
            known.setdefault(f["id"], [f, 0])[1] += 1
    for fid, (f, n) in known.items():
        print(f"KNOWN-FINDING: property={pid} {f['id']}: {f['what']} ({n} recorded case(s) this run)")
    rdir = os.path.join(os.environ.get("MCX_REPLAY_DIR") or os.path.join(VERIF, "replays"), pid)
    written = []
    seen_clause = collections.Counter()
    for v in unmatched:
        seen_clause[v["clause"]] += 1
        if seen_clause[v["clause"]] > 3:
            continue
        os.makedirs(rdir, exist_ok=True)
        h = case_hash(v["case"])
        path = os.path.join(rdir, f"{v['clause']}-{h}.json")
        with open(path, "w") as fp:
            fp.write(jdump(v, indent=1))
        written.append(path)
        print(f"VIOLATION property={pid} replay={path}")
        d = v.get("detail")
        print(f"  clause={v['clause']} case={jdump(v['case'])[:300]}")
        if d is not None:
            print("  detail=" + (d if isinstance(d, str) else jdump(d))[:600])
    n_unmatched_total = total.nviol - sum(n for _, n in known.values()) if total.nviol > len(total.viol) else len(unmatched)
    if unmatched and len(unmatched) > len(written):
        print(f"  ... {n_unmatched_total} violating evaluations in total; replay files written for the first 3 per clause")

    if total.vclauses:
        print("violations by clause|tags:", jdump(dict(total.vclauses)))
    # non-vacuity self-test
    vac = []
    if hasattr(mod, "expected_positive"):
        for name in mod.expected_positive(tier):
            n = total.clauses.get(name, 0) + total.counters.get(name, 0)
            if n == 0:
                vac.append(name)
    if vac:
        print(f"NOTE: clauses/counters never exercised this run: {vac}")

    write_evidence(mod, total, tier, seed, len(unmatched) and n_unmatched_total, vac)
    print(
        f"{pid} tier={tier} seed={seed}: blocks={total.nblocks} cases={total.cases} states={total.states} "
        f"transitions={total.transitions} clause_evals={sum(total.clauses.values())} "
        f"violations={total.nviol} (unlisted {len(unmatched)}) skipped={dict(total.skipped)} wall={total.wall:.1f}s"
    )
    return 1 if unmatched else 0


def write_evidence(mod, total, tier, seed, nviol, vacuous):
    pid = mod.PID
    samples = total.samples[:6] or [{"note": "no case generated"}]
    cov = {
        "states": max(total.states, 0),
        "transitions": max(total.transitions, total.cases),
        "traces_validated_against_impl": total.cases,
        "samples": samples,
        "evaluations": total.cases,
        "distinct_nontrivial": total.nontrivial,
        "rule": mod.RULE,
        "exhaustive": bool(getattr(mod, "EXHAUSTIVE", True)),
        "blocks": total.nblocks,
        "clause_evaluations": dict(sorted(total.clauses.items())),
        "counters": dict(sorted(total.counters.items())),
        "skipped_by_screen": dict(sorted(total.skipped.items())),
        "never_exercised": vacuous,
        "caps_hit": getattr(mod, "CAPS", "none"),
        "implementation_explored": total.src,
        "explanation": "stateless exploration of the implementation itself: every enumerated case is executed "
        "on the real code, so traces_validated_against_impl equals the number of executions",
    }
    ev = {
        "property_id": pid,
        "tier": tier,
        "seed": int(seed),
        "level": "model_checking",
        "coverage": cov,
        "assumptions": list(mod.ASSUMPTIONS),
        "wall_s": round(total.wall, 2),
        "violations": int(nviol or 0),
    }
    evdir = os.environ.get("MCX_EVIDENCE_DIR") or os.path.join(VERIF, "evidence")
    os.makedirs(evdir, exist_ok=True)
    path = os.path.join(evdir, f"{pid}.json")
    tmp = path + ".tmp"
    with open(tmp, "w") as fp:
        fp.write(jdump(ev, indent=1))
    os.replace(tmp, path)


def replay(pid, path):
    global _MOD
    mod = load_check(pid)
    _MOD = mod
    assert_repo()
    if hasattr(mod, "setup"):
        mod.setup("quick", 0)
    with open(path) as fp:
        v = json.load(fp)
    ctx = Ctx(pid)
    signal.signal(signal.SIGALRM, _alarm)
    case = v["case"]
    if "block" in case and len(case) == 1:
        if hasattr(mod, "run_block"):
            mod.run_block(case["block"], ctx)
        else:
            for c in mod.cases(case["block"]):
                run_one(mod, c, ctx)
    else:
        run_one(mod, case, ctx)
    same = [x for x in ctx.viol if x["clause"] == v["clause"]]
    for x in ctx.viol:
        print(f"VIOLATION property={pid} replay={path}")
        print(f"  clause={x['clause']} detail={jdump(x['detail'])[:800]}")
    if not ctx.viol:
        print(f"replay of {path}: no violation (clauses evaluated: {dict(ctx.clauses)})")
    return 1 if ctx.viol else 0


# small helpers shared by checks ---------------------------------------
def close(a, b, rtol=1e-9, atol=0.0):
    if not (math.isfinite(a) and math.isfinite(b)):
        return a == b  # |inf - x| <= rtol * inf would accept anything
    return abs(a - b) <= atol + rtol * max(abs(a), abs(b))


@contextlib.contextmanager
def quiet():
    import logging
    import warnings

    prev = logging.root.manager.disable
    logging.disable(logging.CRITICAL)
    with warnings.catch_warnings():
        warnings.simplefilter("ignore")
        try:
            yield
        finally:
            logging.disable(prev)
