"""Own real (spherical) harmonics and interface-distance series (independent of droplets.* and of scipy's sph_harm_y).

Conventions (from the documented shape definitions):
  2-D:  rho(phi) = R * (1 + sum_n a_n sin(n phi) + b_n cos(n phi)),  amplitudes = [a_1, b_1, a_2, b_2, ...]
  3-D:  rho(theta, phi) = R * (1 + sum_k eps_k Y_k(theta, phi)), k = 1.. ; k = l(l+1)+m ; l = floor(sqrt(k))
        Y_lm real: m>0: sqrt(2) N_lm P_l^m(cos theta) cos(m phi); m<0: sqrt(2) N_l|m| P_l^|m|(cos theta) sin(|m| phi); m=0: N_l0 P_l
        (P_l^m without Condon-Shortley phase, N_lm = sqrt((2l+1)/(4 pi) (l-m)!/(l+m)!))
  axisymmetric: rho(theta) = R * (1 + sum_l eps_l Y_l0(theta)), l = 1..
"""
import math

import numpy as np
from scipy.special import lpmv

PI = math.pi


def lm(k):
    l = int(math.isqrt(k))
    return l, k - l * (l + 1)


def Ylm(l, m, theta, phi):
    theta = np.asarray(theta, float)
    phi = np.asarray(phi, float)
    am = abs(m)
    N = math.sqrt((2 * l + 1) / (4 * PI) * math.factorial(l - am) / math.factorial(l + am))
    P = lpmv(am, l, np.cos(theta)) * (-1) ** am  # remove the Condon-Shortley phase contained in lpmv
    if m > 0:
        return math.sqrt(2) * N * P * np.cos(am * phi)
    if m < 0:
        return math.sqrt(2) * N * P * np.sin(am * phi)
    return N * P


def Yk(k, theta, phi):
    l, m = lm(k)
    return Ylm(l, m, theta, phi)


def rho2d(R, amps, phi):
    phi = np.asarray(phi, float)
    out = np.ones(phi.shape)
    for i, a in enumerate(amps):
        n = i // 2 + 1
        out = out + a * (np.sin(n * phi) if i % 2 == 0 else np.cos(n * phi))
    return R * out


def rho3d(R, amps, theta, phi):
    theta = np.asarray(theta, float)
    out = np.ones(theta.shape)
    for i, a in enumerate(amps):
        if a != 0:
            out = out + a * Yk(i + 1, theta, phi)
    return R * out


def rho_axisym(R, amps, theta):
    theta = np.asarray(theta, float)
    out = np.ones(theta.shape)
    for i, a in enumerate(amps):
        if a != 0:
            out = out + a * Ylm(i + 1, 0, theta, 0.0)
    return R * out
