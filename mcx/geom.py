"""Independent geometry for the four grid families (numpy only; never calls droplets.* or grid.distance).

A grid spec is a JSON-able dict:
  {"kind": "cart", "shape": [..], "dx": [..], "origin": [..], "periodic": [..]}
  {"kind": "polar"|"sph", "n": N, "R": R_outer[, "r0": R_inner]}   (inner radius 0 unless "r0" is given: annular grid)
  {"kind": "cyl", "shape": [nr, nz], "R": R, "z": [z0, z1], "periodic_z": bool}
"""
import itertools
import math

import numpy as np

PI = math.pi


_SHARED_GRIDS = {}


def make_grid(spec, share=False):
    """grid object for a spec; share=True returns ONE object per spec for the life of the process (a caller that keeps its grid)"""
    import json

    import pde

    if share:
        key = json.dumps(spec, sort_keys=True)
        if key not in _SHARED_GRIDS:
            _SHARED_GRIDS[key] = make_grid(spec)
        return _SHARED_GRIDS[key]

    k = spec["kind"]
    if k == "cart":
        if spec.get("unit"):  # the UnitGrid subclass (unit spacing, origin 0)
            assert all(d == 1.0 for d in spec["dx"]) and all(o == 0.0 for o in spec["origin"])
            return pde.UnitGrid(spec["shape"], periodic=list(spec["periodic"]))
        bounds = [(o, o + n * d) for o, n, d in zip(spec["origin"], spec["shape"], spec["dx"])]
        return pde.CartesianGrid(bounds, spec["shape"], periodic=list(spec["periodic"]))
    if k == "polar":
        return pde.PolarSymGrid((spec["r0"], spec["R"]) if spec.get("r0") else spec["R"], spec["n"])
    if k == "sph":
        return pde.SphericalSymGrid((spec["r0"], spec["R"]) if spec.get("r0") else spec["R"], spec["n"])
    if k == "cyl":
        return pde.CylindricalSymGrid(spec["R"], tuple(spec["z"]), tuple(spec["shape"]), periodic_z=spec["periodic_z"])
    raise ValueError(k)


def scale_spec(spec, u):
    """the same grid measured in another length unit (every length multiplied by u; shape and periodicity unchanged)"""
    out = dict(spec)
    for key in ("dx", "origin", "z"):
        if key in out:
            out[key] = [float(v) * u for v in out[key]]
    for key in ("R", "r0"):
        if key in out:
            out[key] = float(out[key]) * u
    out.pop("unit", None)  # no longer a UnitGrid
    return out


def dim_of(spec):
    return {"cart": len(spec.get("shape", [])), "polar": 2, "sph": 3, "cyl": 3}[spec["kind"]]


def cart_axes(spec):
    """per-axis arrays of cell-centre coordinates"""
    return [o + (np.arange(n) + 0.5) * d for o, n, d in zip(spec["origin"], spec["shape"], spec["dx"])]


def cart_lengths(spec):
    return [n * d for n, d in zip(spec["shape"], spec["dx"])]


def min_image(delta, L, periodic):
    """minimal-image reduction of a coordinate difference along one axis"""
    if periodic:
        return delta - L * np.round(delta / L)
    return delta


def cart_diff(spec, centre):
    """array (shape..., dim) of minimal-image difference vectors cell centre - centre"""
    axes = cart_axes(spec)
    L = cart_lengths(spec)
    comps = [min_image(ax - c, l, p) for ax, c, l, p in zip(axes, centre, L, spec["periodic"])]
    return np.stack(np.meshgrid(*comps, indexing="ij"), axis=-1)


def cart_dist(spec, centre):
    return np.linalg.norm(cart_diff(spec, centre), axis=-1)


def point_dist(spec, p, q):
    """minimal-image distance between two points on a Cartesian spec (None spec: Euclidean)"""
    p, q = np.asarray(p, float), np.asarray(q, float)
    if spec is None:
        return float(np.linalg.norm(p - q))
    L = cart_lengths(spec)
    d = [float(min_image(a - b, l, per)) for a, b, l, per in zip(p, q, L, spec["periodic"])]
    return float(np.linalg.norm(d))


def cell_volumes(spec):
    k = spec["kind"]
    if k == "cart":
        return np.full(spec["shape"], float(np.prod(spec["dx"])))
    if k == "polar":
        r = np.linspace(spec.get("r0", 0.0), spec["R"], spec["n"] + 1)
        return PI * (r[1:] ** 2 - r[:-1] ** 2)
    if k == "sph":
        r = np.linspace(spec.get("r0", 0.0), spec["R"], spec["n"] + 1)
        return 4 * PI / 3 * (r[1:] ** 3 - r[:-1] ** 3)
    if k == "cyl":
        nr, nz = spec["shape"]
        r = np.linspace(0, spec["R"], nr + 1)
        dz = (spec["z"][1] - spec["z"][0]) / nz
        return np.outer(PI * (r[1:] ** 2 - r[:-1] ** 2), np.full(nz, dz))
    raise ValueError(k)


def sym_dist(spec, centre):
    """distance of each cell centre from a droplet centre for symmetric grids (centred / on-axis droplets).

    For cylindrical grids with periodic z the minimal image along z is used (the mathematically intended metric).
    """
    k = spec["kind"]
    if k in ("polar", "sph"):
        dr = radial_spacing(spec)
        return spec.get("r0", 0.0) + (np.arange(spec["n"]) + 0.5) * dr
    if k == "cyl":
        nr, nz = spec["shape"]
        dr = spec["R"] / nr
        Lz = spec["z"][1] - spec["z"][0]
        dz = Lz / nz
        r = (np.arange(nr) + 0.5) * dr
        z = spec["z"][0] + (np.arange(nz) + 0.5) * dz
        dzv = min_image(z - centre[2], Lz, spec["periodic_z"])
        return np.sqrt(r[:, None] ** 2 + dzv[None, :] ** 2)
    raise ValueError(k)


def radial_spacing(spec):
    if spec["kind"] in ("polar", "sph"):
        return (spec["R"] - spec.get("r0", 0.0)) / spec["n"]
    return spec["R"] / spec["shape"][0]


def dist_field(spec, centre):
    return cart_dist(spec, centre) if spec["kind"] == "cart" else sym_dist(spec, centre)


def knife_edge(dist, radius, scale, tol=1e-9):
    """True when some cell centre lies within tol*scale of the interface"""
    return bool(np.any(np.abs(dist - radius) <= tol * scale))


def sphere_volume(r, d):
    return [2 * r, PI * r * r, 4 * PI / 3 * r**3][d - 1]


def sphere_radius(v, d):
    return [v / 2, math.sqrt(v / PI), (3 * v / (4 * PI)) ** (1 / 3)][d - 1]


# ----------------------------------------------------------------------
# connected components with periodic offsets (union-find carrying displacement to the root)
# ----------------------------------------------------------------------
def components(img, periodic):
    """Face-connected components of a boolean image on a (partially) periodic box.

    Returns a list of dicts {cells: [index tuples], unwrapped: [coordinate tuples] or None, winding: bool}.
    unwrapped coordinates are integer cell indices continued across the periodic boundary relative to
    the component's first cell (scan order); None for winding components.
    """
    img = np.asarray(img, bool)
    shape = img.shape
    nd = img.ndim
    cells = [tuple(int(v) for v in c) for c in np.argwhere(img)]
    index = {c: i for i, c in enumerate(cells)}
    parent = list(range(len(cells)))
    off = [np.zeros(nd, dtype=np.int64) for _ in cells]  # position(cell) - position(parent), in unwrapped coordinates
    winding_root = {}

    def find(i):
        path = []
        while parent[i] != i:
            path.append(i)
            i = parent[i]
        root = i
        # path compression with offset accumulation (from the top)
        acc = np.zeros(nd, dtype=np.int64)
        for j in reversed(path):
            acc = acc + off[j]
            off[j] = acc.copy()
            parent[j] = root
        return root

    def offset_to_root(i):
        r = find(i)
        return r, (off[i] if i != r else np.zeros(nd, dtype=np.int64))

    for c in cells:
        i = index[c]
        for ax in range(nd):
            nb = list(c)
            nb[ax] += 1
            step = np.zeros(nd, dtype=np.int64)
            step[ax] = 1
            if nb[ax] >= shape[ax]:
                if not periodic[ax]:
                    continue
                nb[ax] = 0
            nb = tuple(nb)
            if nb not in index:
                continue
            if shape[ax] == 1:
                # a cell that is its own periodic neighbour winds around the axis
                r, _ = offset_to_root(i)
                winding_root[r] = True
                continue
            j = index[nb]
            ri, oi = offset_to_root(i)
            rj, oj = offset_to_root(j)
            # unwrapped: pos(j) = pos(i) + step
            if ri == rj:
                if np.any(oi + step != oj):
                    winding_root[ri] = True
            else:
                # attach rj under ri: pos(rj) - pos(ri) = oi + step - oj
                parent[rj] = ri
                off[rj] = oi + step - oj
                if winding_root.pop(rj, False):
                    winding_root[ri] = True
    groups = {}
    for c in cells:
        i = index[c]
        r, o = offset_to_root(i)
        groups.setdefault(r, []).append((c, o.copy()))
    out = []
    for r, members in groups.items():
        wind = bool(winding_root.get(r, False))
        cs = [m[0] for m in members]
        if wind:
            unw = None
        else:
            c0, o0 = members[0]
            unw = [tuple(int(v) for v in (np.array(c0) + (o - o0))) for _, o in members]
        out.append({"cells": cs, "unwrapped": unw, "winding": wind})
    out.sort(key=lambda g: g["cells"][0])
    return out


def all_images(shape, prefix=()):
    n = int(np.prod(shape))
    for rest in itertools.product((0, 1), repeat=n - len(prefix)):
        yield np.array(tuple(prefix) + rest, dtype=bool).reshape(shape)
