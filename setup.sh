#!/bin/bash
# Offline setup: nothing to build (pure Python); verify the interpreter, the repo import and warm the numba cache dir.
cd "$(dirname "$0")"
mkdir -p evidence replays .numba_cache
PYTHONPATH=/repo:/verif /venv/bin/python -W ignore -c "import droplets, numpy, scipy, h5py, pde; print('setup ok', droplets.__file__)"
