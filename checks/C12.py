"""C12 - sphere volume / surface / radius conversions are mutually consistent.

Space (kind I): dim in {1,2,3} x value lattice {m*10^e, m in {1,2.5,7.3}, e=-15..15} u {0}
x argument form {python float, numpy float64, 0-d array, 1-d array, 2-d array}
x every implementation variant of each conversion.  Enumerated completely.
"""
import math

import numpy as np

PID = "C12"
RULE = (
    "complete product dim x value lattice x argument form; for each case every variant of every conversion "
    "(plain, make_*_compiled(dim), make_*_nd_compiled() through a jitted wrapper and as plain function, "
    "pde.grids.spherical.volume_from_radius) plus the droplet accessors is evaluated; a case is non-trivial "
    "when the value is positive; perturbed classes at every radius of the lattice: sphere formulas for zero amplitudes, homogeneity in the radius otherwise"
)
ASSUMPTIONS = [
    "values restricted to the 30-decade lattice; 'for all positive reals' is not decided symbolically",
    "floating-point tolerance 1e-14 relative (a few ulp) for inverse/variant agreement",
]
PI = math.pi

MANT = [1.0, 2.5, 7.3]
FORMS = ["float", "np64", "a0", "a1", "a2", "int"]  # the last one: python int (integer-valued points small enough for int64 arithmetic in the compiled variants)


def vol_ref(r, d):
    return [2 * r, PI * r * r, 4 * PI / 3 * r**3][d - 1]


def surf_ref(r, d):
    return [2.0, 2 * PI * r, 4 * PI * r * r][d - 1]


_J = {}


def setup(tier, seed):
    import numba as nb

    from droplets.tools import spherical as sp

    for d in (1, 2, 3):
        _J["rv", d] = sp.make_radius_from_volume_compiled(d)
        _J["vr", d] = sp.make_volume_from_radius_compiled(d)
        _J["sr", d] = sp.make_surface_from_radius_compiled(d)
    rv = sp.make_radius_from_volume_nd_compiled()
    vr = sp.make_volume_from_radius_nd_compiled()
    _J["rv_nd_py"] = rv
    _J["vr_nd_py"] = vr

    @nb.njit
    def rv_w(v, d):
        return rv(v, d)

    @nb.njit
    def vr_w(r, d):
        return vr(r, d)

    _J["rv_nd"] = rv_w
    _J["vr_nd"] = vr_w
    # warm up all signatures
    for d in (1, 2, 3):
        for x in (1.0, np.float64(1.0), np.array(1.0), np.ones(2), np.ones((2, 2))):
            for k in ("rv", "vr", "sr"):
                _J[k, d](x)
            rv_w(x, d)
            vr_w(x, d)


def blocks(tier, seed):
    exps = range(-15, 16) if tier == "thorough" else range(-15, 16, 1)
    out = []
    for d in (1, 2, 3):
        for form in FORMS:
            out.append({"dim": d, "form": form, "exps": [exps.start, exps.stop], "phase": seed % 3, "tier": tier})
    # histories: the dimension-specialised factories requested in every order inside a fresh process, all of them used afterwards
    import itertools

    for perm in itertools.permutations((1, 2, 3)):
        out.append({"factory_order": list(perm)})
    return out


def cases(block):
    if "factory_order" in block:
        yield {"factory_order": block["factory_order"]}
        return
    d, form = block["dim"], block["form"]
    # the seed selects an additional mantissa set that is enumerated completely as well
    extra = [[], [1.7, 4.1], [3.3, 9.9]][block["phase"]]
    if block.get("tier") == "thorough":
        extra = [1.7, 4.1, 3.3, 9.9, 5.0, 1.0000000000000002]
    if form == "int":
        # integer arguments: 0, powers of ten and a few others, r^3 <= 1e15 (numba computes integer powers in int64; integer arrays
        # are not accepted by the compiled dimension-generic variants, so they are not a supported argument form)
        for v in [0, 1, 2, 7, 10, 25, 73, 100, 1000, 10**4, 10**5]:
            yield {"dim": d, "form": form, "value": v}
        return
    yield {"dim": d, "form": form, "value": 0.0}
    for e in range(*block["exps"]):
        for m in MANT + extra:
            yield {"dim": d, "form": form, "value": m * 10.0**e}


def mk(form, x):
    if form == "int":
        return int(x)
    if form == "i8a1":
        return np.array([x, 2 * x, 3 * x], dtype=np.int64)
    if form == "float":
        return float(x)
    if form == "np64":
        return np.float64(x)
    if form == "a0":
        return np.array(float(x))
    if form == "a1":
        return np.array([x, 2 * x, 0.5 * x])
    if form == "a2":
        return np.array([[x, 2 * x], [0.5 * x, 3 * x]])
    raise ValueError(form)


def eq(a, b, rtol=1e-14):
    a, b = np.asarray(a, float), np.asarray(b, float)
    if a.shape != b.shape:
        return False
    fin = np.isfinite(a) & np.isfinite(b)
    if not np.all(fin | (a == b) | (np.isnan(a) & np.isnan(b))):
        return False  # an infinite value only equals the same infinity (|inf - x| <= rtol * inf would accept anything)
    with np.errstate(invalid="ignore"):
        return bool(np.all(~fin | (np.abs(a - b) <= rtol * np.maximum(np.abs(a), np.abs(b)))))


def run_factory_order(case, ctx):
    from mcx import core

    order = case["factory_order"]
    vals = [0.0, 0.37, 2.5, 1e-6, 4e5]

    def body():
        from droplets.tools import spherical as sp

        made = {}
        for d in order:  # create all factories first (in this order), use them afterwards (in reverse order)
            made[d] = (sp.make_radius_from_volume_compiled(d), sp.make_volume_from_radius_compiled(d), sp.make_surface_from_radius_compiled(d))
        out = {}
        for d in reversed(order):
            rv, vr, sr = made[d]
            out[d] = [(float(vr(x)), float(sr(x)), float(rv(vol_ref(x, d))), [float(y) for y in vr(np.array([x, 2 * x]))]) for x in vals]
        return out

    res = core.in_fork(body)
    ctx.op(len(order) * len(vals) * 4)
    ctx.count("factory-order-histories")
    for d in order:
        for x, (v, s_, r, va) in zip(vals, res[d]):
            ok = eq(v, vol_ref(x, d)) and eq(s_, surf_ref(x, d)) and eq(r, x) and eq(va, [vol_ref(x, d), vol_ref(2 * x, d)])
            ctx.check("C12.variants-agree", ok, {"factory_order": order, "dim": d, "value": x, "got": [v, s_, r, va], "want": [vol_ref(x, d), surf_ref(x, d), x]}, {"history": True})


def perturbed_setter(ctx, x0):
    """setting the volume of a perturbed 2-D droplet (any number of amplitudes, odd counts included) and reading it back"""
    from droplets.droplets import PerturbedDroplet2D

    if not (1e-12 <= x0 <= 1e12):
        return
    for amps in ([0.2], [0.1, -0.3], [0.0, 0.0, 0.25], [0.3, 0.1, -0.2, 0.05], [0.1, 0.2, 0.1, -0.1, 0.3]):
        dr = PerturbedDroplet2D(np.array([0.5, -1.0]), 1.3, 0.1, np.array(amps))
        try:
            dr.volume = x0
            got = dr.volume
            ctx.op(2)
        except Exception as e:  # noqa
            got = repr(e)
        ctx.check("C12.setter", not isinstance(got, str) and eq(got, x0, 1e-13) and np.array_equal(dr.amplitudes, amps), {"class": "PerturbedDroplet2D", "amplitudes": amps, "set": x0, "get": got})


_UNIT = {}


def perturbed_scaling(ctx, x0, d, pos):
    """perturbed classes: with zero amplitudes the sphere formulas hold; in general size quantities are homogeneous in the radius
    (volume ~ R^d, surface ~ R^(d-1), exactly 0 for a vanished droplet) - for every radius of the lattice, 0 included"""
    from droplets.droplets import PerturbedDroplet2D, PerturbedDroplet3D, PerturbedDroplet3DAxisSym

    classes = [(PerturbedDroplet2D, [None, [0.0, 0.0], [0.1, -0.2, 0.15]])] if d == 2 else [(PerturbedDroplet3D, [None, [0.0, 0.0, 0.0], [0.1, 0.0, -0.2]]), (PerturbedDroplet3DAxisSym, [None, [0.0, 0.0], [0.1, -0.2]])]
    for cls, amp_sets in classes:
        if cls is PerturbedDroplet3DAxisSym:
            pos = np.array([0.0, 0.0, pos[2]])  # this class lives on the z axis
        for amps in amp_sets:
            a = None if amps is None else np.array(amps)
            quantities = [q for q in ("volume", "surface_area", "volume_approx", "surface_area_approx") if isinstance(getattr(cls, q, None), property)]
            got, unit = {}, {}
            for q in quantities:
                key = (cls.__name__, str(amps), q)
                try:
                    got[q] = float(getattr(cls(pos, x0, 0.1, a), q))
                    if key not in _UNIT:
                        _UNIT[key] = float(getattr(cls(pos, 1.0, 0.1, a), q))
                    ctx.op()
                except NotImplementedError:
                    continue
                except Exception as e:  # noqa
                    ctx.check("C12.perturbed", False, {"cls": cls.__name__, "amplitudes": amps, "quantity": q, "radius": x0, "exc": repr(e)[:200]})
                    continue
                power = d if q.startswith("volume") else d - 1
                want = _UNIT[key] * x0**power
                ok = np.isfinite(got[q]) and (got[q] == 0.0 if x0 == 0 else abs(got[q] - want) <= 1e-9 * abs(want))
                ctx.check("C12.perturbed", bool(ok), {"cls": cls.__name__, "amplitudes": amps, "quantity": q, "radius": x0, "got": got[q], "want_from_unit_radius": want})
                if amps is None or not any(amps):
                    ref = vol_ref(x0, d) if q.startswith("volume") else surf_ref(x0, d)
                    ctx.check("C12.perturbed", bool(abs(got[q] - ref) <= 1e-9 * abs(ref)), {"cls": cls.__name__, "amplitudes": amps, "quantity": q, "radius": x0, "got": got[q], "sphere": ref})


def run_case(case, ctx):
    from pde.grids.spherical import volume_from_radius as pde_vr

    if "factory_order" in case:
        return run_factory_order(case, ctx)
    if case["dim"] == 2 and case["form"] == "float":
        perturbed_setter(ctx, case["value"])

    from droplets import DiffuseDroplet, SphericalDroplet
    from droplets.tools import spherical as sp

    d, form, x0 = case["dim"], case["form"], case["value"]
    x = mk(form, x0)
    xs = np.asarray(x, float)
    shape = xs.shape

    x_before = np.array(xs, copy=True)
    # --- closed forms against the definitions -------------------------
    V = sp.volume_from_radius(x, d)
    ctx.op()
    ctx.check("C12.formula", eq(V, vol_ref(xs, d)), {"V": V, "ref": vol_ref(xs, d)})
    S = sp.surface_from_radius(x, d)
    ctx.op()
    ctx.check("C12.formula", eq(np.broadcast_to(S, shape), np.broadcast_to(surf_ref(xs, d), shape)), {"S": S})
    ctx.check("C12.shape", np.shape(V) == shape and np.shape(S) == shape, {"V": np.shape(V), "S": np.shape(S), "x": shape})

    # --- inverse ------------------------------------------------------
    r_back = sp.radius_from_volume(V, d)
    ctx.op()
    ctx.check("C12.inverse", eq(r_back, xs) and np.shape(r_back) == shape, {"r": xs, "back": r_back, "via": "volume"})
    v_back = sp.volume_from_radius(sp.radius_from_volume(x, d), d)  # x read as a volume
    ctx.op(2)
    ctx.check("C12.inverse", eq(v_back, xs), {"v": xs, "back": v_back, "via": "radius"})
    if d >= 2:
        r_back = sp.radius_from_surface(S, d)
        ctx.op()
        ctx.check("C12.inverse", eq(r_back, xs) and np.shape(r_back) == shape, {"r": xs, "back": r_back, "via": "surface"})
        s_back = sp.surface_from_radius(sp.radius_from_surface(x, d), d)
        ctx.op(2)
        ctx.check("C12.inverse", eq(s_back, xs), {"s": xs, "back": s_back, "via": "radius<-surface"})
    else:
        try:
            sp.radius_from_surface(x, 1)
            ok = False
        except RuntimeError:
            ok = True
        ctx.check("C12.dim1-surface-raises", ok)

    # --- derivative ---------------------------------------------------
    ctx.check("C12.derivative", eq(np.asarray(S, float) * xs, d * np.asarray(V, float), 1e-14), {"S*r": S * xs, "d*V": d * V})
    if x0 > 0:
        h = 1e-4
        num = (np.asarray(sp.volume_from_radius(x * (1 + h), d), float) - np.asarray(sp.volume_from_radius(x * (1 - h), d), float)) / (2 * h * xs)
        ctx.op(2)
        ctx.check("C12.derivative-fd", eq(num, np.broadcast_to(np.asarray(S, float), shape), 1e-6), {"fd": num, "S": S})

    # --- variants agree -----------------------------------------------
    variants_v = {
        "compiled": _J["vr", d](x),
        "nd_jit": _J["vr_nd"](x, d),
        "nd_py": _J["vr_nd_py"](x, d),
        "pde": pde_vr(x, d),
    }
    for name, val in variants_v.items():
        ctx.op()
        ctx.check("C12.variants-agree", eq(val, V) and np.shape(val) == shape, {"variant": "volume_from_radius/" + name, "val": val, "ref": V})
    R = sp.radius_from_volume(x, d)
    variants_r = {"compiled": _J["rv", d](x), "nd_jit": _J["rv_nd"](x, d), "nd_py": _J["rv_nd_py"](x, d)}
    for name, val in variants_r.items():
        ctx.op()
        ctx.check("C12.variants-agree", eq(val, R) and np.shape(val) == shape, {"variant": "radius_from_volume/" + name, "val": val, "ref": R})
    sc = _J["sr", d](x)
    ctx.op()
    ctx.check("C12.variants-agree", eq(sc, np.broadcast_to(S, shape)) and np.shape(sc) == shape, {"variant": "surface_from_radius/compiled", "val": sc, "ref": S})
    ctx.check("C12.radius-formula", eq(R, [xs / 2, np.sqrt(xs / PI), np.cbrt(3 * xs / (4 * PI))][d - 1], 1e-14))

    ctx.check("C12.argument-unmodified", bool(np.array_equal(np.asarray(x, float), x_before)), {"before": x_before, "after": np.asarray(x, float)})
    # --- droplet accessors (scalar forms only) -------------------------
    if form in ("float", "np64"):
        pos = np.array([0.3, -1.2, 2.0][:d])
        for cls in (SphericalDroplet, DiffuseDroplet):
            drop = cls(pos, x0)
            ctx.op()
            ctx.check("C12.droplet", eq(drop.volume, vol_ref(x0, d)), {"cls": cls.__name__, "volume": drop.volume})
            ctx.check("C12.droplet", eq(drop.surface_area, surf_ref(x0, d)), {"cls": cls.__name__, "surface": drop.surface_area})
            if x0 > 0:
                ctx.check("C12.droplet", eq(drop.interface_curvature, 1 / x0), {"curv": drop.interface_curvature})
            bb = drop.bbox
            ctx.check(
                "C12.droplet",
                bool(np.all(np.abs(np.asarray(bb.bounds)[:, 0] - (pos - x0)) <= 4e-15 * (np.abs(pos) + x0)))
                and bool(np.all(np.abs(np.asarray(bb.bounds)[:, 1] - (pos + x0)) <= 4e-15 * (np.abs(pos) + x0))),
                {"bbox": bb.bounds},
            )
            # reading the accessors leaves the droplet as it was, and a second reading gives the same answers
            bb2 = drop.bbox
            ctx.check("C12.accessors-pure", bool(np.array_equal(drop.position, pos)) and drop.radius == x0 and bool(np.array_equal(np.asarray(bb2.bounds), np.asarray(bb.bounds)))
                      and eq(drop.volume, vol_ref(x0, d)) and eq(drop.surface_area, surf_ref(x0, d)), {"position": drop.position, "want": pos, "bbox_again": bb2.bounds, "bbox": bb.bounds})
            if cls is SphericalDroplet and form == "float" and d >= 2:
                perturbed_scaling(ctx, x0, d, pos)
            fv = cls.from_volume(pos, x0)  # x0 read as a volume
            ctx.op()
            ctx.check("C12.droplet", eq(fv.volume, x0) and np.array_equal(fv.position, pos) and fv.dim == d, {"from_volume": fv.volume, "want": x0})
            ctx.check("C12.droplet", eq(fv.radius, float(sp.radius_from_volume(x0, d))), {"from_volume.radius": fv.radius})
            # the way the droplet object came to be must not matter for the setter
            import copy
            import pickle

            for how in ("pickle", "deepcopy", "copy"):
                base_d = cls(pos, 1.0)
                drop3 = {"pickle": lambda: pickle.loads(pickle.dumps(base_d)), "deepcopy": lambda: copy.deepcopy(base_d), "copy": lambda: base_d.copy()}[how]()
                try:
                    drop3.volume = x0
                    got3 = drop3.volume
                    ctx.op(2)
                except Exception as e:  # noqa
                    got3 = repr(e)
                ctx.check("C12.setter", not isinstance(got3, str) and eq(got3, x0) and eq(base_d.radius, 1.0), {"provenance": how, "set": x0, "get": got3, "original_radius": base_d.radius})
            for r_start in (1.0, 0.0, 3.7e-9):
                for via_zero in (False, True):
                    drop2 = cls(pos, r_start)
                    try:
                        if via_zero:
                            drop2.volume = 0.0
                            ctx.op()
                        drop2.volume = x0 if not via_zero else np.float64(x0)
                        ctx.op()
                        got = drop2.volume
                    except Exception as e:  # noqa
                        got = repr(e)
                    ctx.check("C12.setter", not isinstance(got, str) and eq(got, x0) and np.array_equal(drop2.position, pos) and eq(drop2.radius, float(sp.radius_from_volume(x0, d))),
                              {"start_radius": r_start, "via_zero": via_zero, "set": x0, "get": got})


def expected_positive(tier):
    return ["C12.formula", "C12.inverse", "C12.derivative", "C12.derivative-fd", "C12.variants-agree", "C12.droplet", "C12.setter", "C12.shape", "factory-order-histories", "C12.perturbed", "C12.accessors-pure"]
