"""C13 - a perturbed droplet's volume, surface, curvature and outline match its shape.

Space (kind I): class {2-D (<= 8 amplitudes), 3-D (<= 24 amplitudes = degree 4), axisymmetric (<= 4)} x radius {0.5,1,3} x
centre {origin, generic} x amplitude pattern {zero; every single mode; every pair of modes (quick: pairs among the first 8);
some triples} x amplitude scale {1e-4, 1e-5} for first-order clauses and {0.05, 0.2} for integral clauses x a fixed lattice
of directions.  Reference: own harmonic series (mcx/harm.py), exact differential geometry of r = rho(direction) with
4th-order finite differences of the OWN position function, Gauss-Legendre x trapezoid quadrature.
"""
import itertools
import math

import numpy as np

from mcx import harm

PID = "C13"
RULE = (
    "complete product class x radius x centre x amplitude pattern (zero, all singles, all pairs [3-D quick: pairs among modes 1..8 plus every "
    "pair (k, k+9)], fixed triples) x amplitude scale x direction lattice (7 polar x 8 azimuthal angles; 16 angles in 2-D); "
    "non-trivial = at least one non-zero amplitude"
)
ASSUMPTIONS = [
    "'to first order' is decided at eps = 1e-4 and 1e-5 with the bound |H_code - H_true| <= K*eps^2/R, K = 2000*max(1,(degree/4)^4) (= 0.02*eps/R at 1e-5 up to degree 4) and |V_approx - V| <= 50 eps^2 R^3",
    "true curvature from the fundamental forms of the own surface parametrisation (4th-order differences, step 1e-3 rad)",
    "volume/surface integrals only where the class implements the quantity (2-D volume & surface, 3-D volume, volume_approx)",
]
PI = math.pi
RADII = [0.5, 1.0, 3.0]
TH = [0.35 + 0.4 * i for i in range(7)]
PH = [0.1 + 0.77 * i for i in range(8)]
PHI2 = [0.05 + 2 * PI * i / 16 for i in range(16)]


def patterns(n, tier, cls):
    pats = [()]
    pats += [((i, 1.0),) for i in range(n)]
    pairs = list(itertools.combinations(range(n), 2))
    if cls == "3d" and tier != "thorough":
        pairs = [p for p in pairs if p[1] < 8 or p[1] == p[0] + 9]
    pats += [((i, 1.0), (j, -0.7)) for i, j in pairs]
    trip = [(0, 2, 5), (1, 3, 7)] if n >= 8 else ([(0, 1, 3)] if n >= 4 else [])
    pats += [((a, 1.0), (b, 0.6), (c, -0.8)) for a, b, c in trip if c < n]
    return pats


def blocks(tier, seed):
    out = []
    for cls, n in (("2d", 3), ("2d", 5), ("3d", 5), ("axisym", 3)):
        # amplitude vectors that do not complete the highest mode (valid input)
        out.append({"cls": cls, "n": n, "R": RADII[(seed + n) % 3], "centre": "generic", "tier": tier, "mode": "first-order"})
        out.append({"cls": cls, "n": n, "R": RADII[(seed + n + 1) % 3], "centre": "generic", "tier": tier, "mode": "integral"})
    # histories across classes: droplets of two classes with the SAME number of amplitudes observed one after the other (fresh fork)
    out.append({"cls": "3d", "n": 0, "mode": "class-sequence", "tier": tier})
    for cls in ("2d", "3d", "axisym"):
        out.append({"cls": cls, "mode": "mutation", "n": {"2d": 4, "3d": 8, "axisym": 3}[cls], "tier": tier})
    big = (("2d", 8), ("3d", 24), ("axisym", 4)) if tier != "thorough" else (("2d", 8), ("2d", 12), ("3d", 24), ("3d", 35), ("axisym", 4), ("axisym", 6))
    for cls, n in big:
        for R in (RADII + [1e-3, 2e2] if tier == "thorough" else RADII):  # thorough: absolute scales far from 1
            for ci, centre in enumerate(("origin", "generic")):
                out.append({"cls": cls, "n": n, "R": R, "centre": centre, "tier": tier, "mode": "first-order"})
        blk = {"cls": cls, "n": n if cls != "3d" else 8, "R": [1.0, 0.5, 3.0][seed % 3], "centre": "generic", "tier": tier, "mode": "integral"}
        if blk not in out:
            out.append(blk)
    return out


def cases(block):
    cls, n = block["cls"], block["n"]
    if block["mode"] == "class-sequence":
        for n_ in (2, 3, 4, 6):
            for a, b in itertools.permutations(("2d", "3d", "axisym"), 2):
                yield {"mode": "class-sequence", "cls": b, "first_cls": a, "n": n_}
        return
    if block["mode"] == "mutation":
        # operation sequences on ONE droplet object: read everything, change parameters, read again
        pats = [[0.0] * n, [0.15] + [0.0] * (n - 1), [0.0] * (n - 1) + [-0.2], [0.1, -0.1] + [0.05] * (n - 2)]
        for a, b in itertools.permutations(range(len(pats)), 2):
            for how in ("setter", "inplace", "data-assign", "radius", "position"):
                yield {"cls": cls, "n": n, "mode": "mutation", "first": pats[a], "second": pats[b], "how": how}
        return
    for pat in patterns(n, block["tier"], cls):
        if block["mode"] == "first-order":
            for eps in (1e-4, 1e-5):
                yield {"cls": cls, "n": n, "R": block["R"], "centre": block["centre"], "pattern": [list(p) for p in pat], "eps": eps, "mode": "first-order"}
        else:
            if cls == "3d" and len(pat) > 1 and block["tier"] != "thorough" and (pat[1][0] > 5):
                continue
            for eps in (0.05, 0.2):
                yield {"cls": cls, "n": n, "R": block["R"], "centre": block["centre"], "pattern": [list(p) for p in pat], "eps": eps, "mode": "integral"}


def centre_of(cls, label):
    if label == "origin":
        return [0.0, 0.0] if cls == "2d" else [0.0, 0.0, 0.0]
    return [1.3, -0.4] if cls == "2d" else ([0.7, -1.1, 2.5] if cls == "3d" else [0.0, 0.0, 2.5])


def make(cls, c, R, amps):
    from droplets.droplets import PerturbedDroplet2D, PerturbedDroplet3D, PerturbedDroplet3DAxisSym

    K = {"2d": PerturbedDroplet2D, "3d": PerturbedDroplet3D, "axisym": PerturbedDroplet3DAxisSym}[cls]
    return K(np.array(c, float), R, 0.1, np.array(amps, float))


def rho(cls, R, amps, th, ph=None):
    if cls == "2d":
        return harm.rho2d(R, amps, th)
    if cls == "3d":
        return harm.rho3d(R, amps, th, ph)
    return harm.rho_axisym(R, amps, th)


def X3(cls, R, amps, th, ph):
    r = rho(cls, R, amps, th, ph)
    return np.stack([r * np.sin(th) * np.cos(ph), r * np.sin(th) * np.sin(ph), r * np.cos(th)], axis=-1)


def d1(f, x, h):
    return (-f(x + 2 * h) + 8 * f(x + h) - 8 * f(x - h) + f(x - 2 * h)) / (12 * h)


def d2(f, x, h):
    return (-f(x + 2 * h) + 16 * f(x + h) - 30 * f(x) + 16 * f(x - h) - f(x - 2 * h)) / (12 * h * h)


def mean_curvature_3d(cls, R, amps, th, ph, h=1e-3):
    th = np.asarray(th, float)
    ph = np.asarray(ph, float)
    f = lambda t, p: X3(cls, R, amps, t, p)
    Xt = d1(lambda t: f(t, ph), th, h)
    Xp = d1(lambda p: f(th, p), ph, h)
    Xtt = d2(lambda t: f(t, ph), th, h)
    Xpp = d2(lambda p: f(th, p), ph, h)
    Xtp = d1(lambda t: d1(lambda p: f(t, p), ph, h), th, h)
    E = np.sum(Xt * Xt, -1)
    F = np.sum(Xt * Xp, -1)
    G = np.sum(Xp * Xp, -1)
    n = np.cross(Xt, Xp)
    n /= np.linalg.norm(n, axis=-1)[..., None]
    L = np.sum(Xtt * n, -1)
    M = np.sum(Xtp * n, -1)
    N = np.sum(Xpp * n, -1)
    return -(E * N - 2 * F * M + G * L) / (2 * (E * G - F * F))


def curvature_2d(R, amps, phi):
    phi = np.asarray(phi, float)
    r = harm.rho2d(R, amps, phi)
    r1 = np.zeros_like(phi)
    r2 = np.zeros_like(phi)
    for i, a in enumerate(amps):
        n = i // 2 + 1
        if i % 2 == 0:
            r1 += R * a * n * np.cos(n * phi)
            r2 -= R * a * n * n * np.sin(n * phi)
        else:
            r1 -= R * a * n * np.sin(n * phi)
            r2 -= R * a * n * n * np.cos(n * phi)
    return (r * r + 2 * r1 * r1 - r * r2) / (r * r + r1 * r1) ** 1.5


_GL = np.polynomial.legendre.leggauss(96)


def volume_3d(cls, R, amps):
    x, w = _GL
    th = np.arccos(x)
    ph = np.linspace(0, 2 * PI, 192, endpoint=False)
    T, P = np.meshgrid(th, ph, indexing="ij")
    r = rho(cls, R, amps, T, P)
    return float(np.sum(w[:, None] * r**3 / 3) * (2 * PI / len(ph)))


def observe(cls, drop):
    """all geometric observables of a droplet object"""
    if cls == "2d":
        ang = (np.array(PHI2),)
    else:
        T, P = np.meshgrid(TH, PH, indexing="ij")
        ang = (T.ravel(), P.ravel())
    a1 = ang if cls != "axisym" else ang[:1]
    obs = {"distance": np.asarray(drop.interface_distance(*a1)), "position": np.asarray(drop.interface_position(*ang)), "curvature": np.asarray(drop.interface_curvature(*a1)) * np.ones(len(ang[0]))}
    if cls == "2d":
        obs.update(volume=drop.volume, surface=drop.surface_area, surface_approx=drop.surface_area_approx)
    else:
        obs.update(volume_approx=drop.volume_approx)
        if cls == "3d":
            obs.update(volume=drop.volume)
    obs["triangulation"] = np.asarray(drop.get_triangulation(0.7)["vertices"])
    obs["bounds"] = np.concatenate(drop.data_bounds)
    return obs


def run_mutation(case, ctx):
    cls, n = case["cls"], case["n"]
    tags = {"cls": cls, "how": case["how"], "mode": "mutation"}
    c = centre_of(cls, "generic")
    R1, R2 = 1.3, (2.1 if case["how"] == "radius" else 1.3)
    c2 = list(c)
    if case["how"] == "position":
        c2[-1] += 0.75
    drop = make(cls, c, R1, case["first"])
    observe(cls, drop)  # first read (may fill caches)
    ctx.op()
    how = case["how"]
    if how == "setter":
        drop.amplitudes = np.array(case["second"], float)
    elif how == "inplace":
        drop.amplitudes[...] = np.array(case["second"], float)
    elif how == "data-assign":
        drop.data["amplitudes"] = np.array(case["second"], float)
    elif how == "radius":
        drop.amplitudes = np.array(case["second"], float)
        drop.radius = R2
    else:
        drop.amplitudes = np.array(case["second"], float)
        drop.position = np.array(c2, float)
    got = observe(cls, drop)
    ctx.op()
    want = observe(cls, make(cls, c2, R2, case["second"]))
    for k in want:
        ok = np.allclose(np.asarray(got[k], float), np.asarray(want[k], float), rtol=1e-12, atol=1e-14)
        ctx.check("C13.state-independent", bool(ok), {"quantity": k, "got": np.asarray(got[k], float).ravel()[:3], "fresh_object": np.asarray(want[k], float).ravel()[:3]}, tags)
    cp = drop.copy()
    got2 = observe(cls, cp)
    ctx.check("C13.state-independent", all(np.allclose(np.asarray(got2[k], float), np.asarray(want[k], float), rtol=1e-12, atol=1e-14) for k in want), {"quantity": "copy"}, tags)
    ctx.count("mutation-sequences")


def run_class_sequence(case, ctx):
    from mcx import core

    n = case["n"]
    amps = [0.0, 0.12, -0.07, 0.05, 0.0, 0.03][:n]

    def obs(cls):
        c = [0.3, -0.2] if cls == "2d" else ([0.0, 0.0, 0.4] if cls == "axisym" else [0.3, -0.2, 0.4])
        o = observe(cls, make(cls, c, 1.3, amps))
        return {k: np.asarray(v, float) for k, v in o.items() if k in ("distance", "curvature", "position", "volume_approx")}

    a, b = case["first_cls"], case["cls"]
    alone = core.in_fork(lambda: obs(b))
    seq = core.in_fork(lambda: (obs(a), obs(b))[1])
    ctx.op(3)
    ctx.count("class-sequences")
    for k in alone:
        ctx.check("C13.state-independent", bool(np.array_equal(alone[k], seq[k])), {"quantity": k, "after_class": a, "alone": alone[k].ravel()[:3], "in_sequence": seq[k].ravel()[:3]}, {"cls": b, "mode": "class-sequence"})


def run_case(case, ctx):
    if case["mode"] == "class-sequence":
        return run_class_sequence(case, ctx)
    if case["mode"] == "mutation":
        return run_mutation(case, ctx)
    cls, n, R, eps = case["cls"], case["n"], case["R"], case["eps"]
    amps = [0.0] * n
    for i, a in case["pattern"]:
        amps[i] = a * eps
    c = centre_of(cls, case["centre"])
    drop = make(cls, c, R, amps)
    tags = {"cls": cls, "nonzero_modes": len(case["pattern"]), "R": R}
    nz = len(case["pattern"]) > 0
    if nz:
        ctx.count("non-zero-amplitudes")
    if len(case["pattern"]) >= 2:
        ctx.count("several-simultaneous-modes")
    if cls == "2d":
        ang = (np.array(PHI2),)
    else:
        T, P = np.meshgrid(TH, PH, indexing="ij")
        ang = (T.ravel(), P.ravel())
    # --- shape function / interface position ------------------------------
    r_ref = rho(cls, R, amps, *ang) if cls != "axisym" else rho(cls, R, amps, ang[0])
    r_lib = drop.interface_distance(*ang) if cls != "axisym" else drop.interface_distance(ang[0])
    ctx.op()
    ctx.check("C13.shape-function", bool(np.allclose(r_lib, r_ref, rtol=1e-12, atol=0)), {"maxdiff": float(np.max(np.abs(r_lib - r_ref)))}, tags)
    if cls == "2d":
        unit = np.stack([np.cos(ang[0]), np.sin(ang[0])], -1)
    else:
        unit = np.stack([np.sin(ang[0]) * np.cos(ang[1]), np.sin(ang[0]) * np.sin(ang[1]), np.cos(ang[0])], -1)
    want = np.array(c)[None, :] + r_ref[:, None] * unit
    try:
        pos = drop.interface_position(*ang)
        ctx.op()
        ctx.check("C13.position", pos.shape == want.shape and bool(np.allclose(pos, want, rtol=0, atol=1e-12 * R)), {"maxdiff": float(np.max(np.abs(pos - want))) if pos.shape == want.shape else None}, tags)
    except Exception as e:  # noqa
        ctx.check("C13.position", False, {"exc": repr(e)[:200]}, tags)
    # the form of the direction arguments must not matter: lists, 2-d arrays in C and in Fortran memory order, strided views
    if nz and case["eps"] in (1e-4, 0.05):
        shp = (len(ang[0]),) if cls == "2d" else (len(TH), len(PH))
        for form in ("list", "2d-C", "2d-F", "transposed-view", "strided"):
            if form == "list":
                args = [list(map(float, a)) for a in ang]
                back = lambda x: np.asarray(x)
            elif form == "2d-C":
                if cls == "2d":
                    continue
                args = [np.ascontiguousarray(a.reshape(shp)) for a in ang]
                back = lambda x: np.asarray(x).reshape(-1)
            elif form == "2d-F":
                if cls == "2d":
                    continue
                args = [np.asfortranarray(a.reshape(shp)) for a in ang]
                back = lambda x: np.asarray(x).reshape(-1)
            elif form == "transposed-view":
                if cls == "2d":
                    continue
                args = [np.ascontiguousarray(a.reshape(shp).T).T for a in ang]  # same values, non-C strides
                back = lambda x: np.asarray(x).reshape(-1)
            else:
                args = [np.repeat(a, 2)[::2] for a in ang]
                back = lambda x: np.asarray(x)
            if cls == "axisym":
                args = args[:1]
            try:
                rr = back(drop.interface_distance(*args))
                hh = np.asarray(drop.interface_curvature(*args))
                h1 = np.asarray(drop.interface_curvature(*([ang[0]] if cls == "axisym" else list(ang))))
                ctx.op(3)
                ok = rr.shape == np.shape(r_lib) and bool(np.array_equal(rr, np.asarray(r_lib))) and np.array_equal(hh.reshape(-1) * np.ones(h1.size), h1.reshape(-1) * np.ones(h1.size))
                ctx.check("C13.argument-form", bool(ok), {"form": form}, tags)
            except Exception as e:  # noqa
                ctx.check("C13.argument-form", False, {"form": form, "exc": repr(e)[:200]}, tags)
    # documented short form of the 3-d class: the polar angle may be omitted and then counts as 0
    if cls == "3d" and case["eps"] in (1e-4, 0.05):
        try:
            th = np.array(TH, float)
            zero = np.zeros_like(th)
            ok = True
            for fn in ("interface_distance", "interface_curvature", "interface_position"):
                one = np.asarray(getattr(drop, fn)(th), float)
                two = np.asarray(getattr(drop, fn)(th, zero), float)
                ok = ok and one.shape == two.shape and bool(np.array_equal(one, two))
                ctx.op(2)
            own = harm.rho3d(R, amps, th, zero)
            ok2 = bool(np.allclose(np.asarray(drop.interface_distance(th), float), own, rtol=1e-12, atol=0))
            ctx.check("C13.argument-form", ok and ok2, {"form": "polar angle omitted", "same_as_explicit_zero": ok, "same_as_own_series": ok2}, tags)
            if any(a != 0 for k, a in enumerate(amps, 1) if harm.lm(k)[1] == 0):
                ctx.count("polar-angle-omitted-with-zonal-mode")
        except Exception as e:  # noqa
            ctx.check("C13.argument-form", False, {"form": "polar angle omitted", "exc": repr(e)[:200]}, tags)
    # a caller may keep ONE buffer per angle and overwrite it between calls: the result must follow the contents, not the object
    if nz and case["eps"] in (1e-4, 0.05):
        try:
            bufs = [np.array(a[::-1], float) for a in ang]  # other directions first (reversed order)
            use = bufs[:1] if cls == "axisym" else bufs
            first = np.array(drop.interface_distance(*use), float)
            drop.interface_position(*bufs)
            drop.interface_curvature(*use)
            for b, a in zip(bufs, ang):
                b[...] = a  # in-place update of the same array objects
            again = np.array(drop.interface_distance(*use), float)
            pos_again = np.asarray(drop.interface_position(*bufs), float)
            curv_again = np.asarray(drop.interface_curvature(*use), float)
            curv_fresh = np.asarray(drop.interface_curvature(*([ang[0]] if cls == "axisym" else list(ang))), float)
            ctx.op(7)
            ok = again.shape == np.shape(r_lib) and bool(np.array_equal(again, np.asarray(r_lib))) and bool(np.allclose(pos_again, want, rtol=0, atol=1e-12 * R)) and bool(np.array_equal(curv_again, curv_fresh))
            ctx.check("C13.argument-form", bool(ok), {"form": "buffer overwritten in place between calls", "first_call_equals_reversed": bool(np.array_equal(first[::-1], np.asarray(r_lib)))}, tags)
        except Exception as e:  # noqa
            ctx.check("C13.argument-form", False, {"form": "buffer overwritten in place between calls", "exc": repr(e)[:200]}, tags)
    # scalar arguments work as well
    try:
        p1 = drop.interface_position(*[float(a[3]) for a in ang])
        ctx.check("C13.position", bool(np.allclose(np.asarray(p1).ravel(), want[3], rtol=0, atol=1e-12 * R)), {"scalar": True}, tags)
    except Exception as e:  # noqa
        ctx.check("C13.position", False, {"exc": repr(e)[:200], "scalar": True}, tags)
    # --- triangulation ------------------------------------------------------
    if case["mode"] == "integral" or eps == 1e-4:
        tri = drop.get_triangulation(resolution=0.5 * R)
        ctx.op()
        V = np.asarray(tri["vertices"], float) - np.array(c)[None, :]
        dist = np.linalg.norm(V, axis=1)
        if cls == "2d":
            rr = harm.rho2d(R, amps, np.arctan2(V[:, 1], V[:, 0]))
        else:
            th = np.arccos(np.clip(V[:, 2] / dist, -1, 1))
            phv = np.arctan2(V[:, 1], V[:, 0])
            rr = harm.rho3d(R, amps, th, phv) if cls == "3d" else harm.rho_axisym(R, amps, th)
        ctx.check("C13.triangulation", len(V) >= 3 and bool(np.allclose(dist, rr, rtol=1e-9, atol=0)), {"maxrel": float(np.max(np.abs(dist / rr - 1))), "n": len(V)}, tags)
    # --- curvature to first order -------------------------------------------
    if case["mode"] == "first-order":
        if cls == "2d":
            Ht = curvature_2d(R, amps, ang[0])
            Hc = drop.interface_curvature(ang[0])
        elif cls == "3d":
            Ht = mean_curvature_3d(cls, R, amps, *ang)
            Hc = drop.interface_curvature(*ang)
        else:
            Ht = mean_curvature_3d(cls, R, amps, *ang)
            Hc = drop.interface_curvature(ang[0])
        ctx.op()
        err = float(np.max(np.abs(np.asarray(Hc) - Ht)))
        # first order: the error must be O(eps^2); K = 2000 bounds the second-order term of all modes up to degree 4
        # (measured <= 250 for the correct linearisation), i.e. 0.2*eps/R at eps = 1e-4 and 0.02*eps/R at eps = 1e-5
        # the second-order term grows like degree^4: scale K for patterns that populate degrees above 4 (thorough tier)
        idx_max = max((i for i, _ in case["pattern"]), default=0)
        deg = {"2d": idx_max // 2 + 1, "axisym": idx_max + 1}.get(cls) or int(math.floor(math.sqrt(idx_max + 1)))
        K = 2000 * max(1.0, (deg / 4.0) ** 4)
        ctx.check("C13.curvature-1st", err <= K * eps * eps / R + 1e-9 / R, {"max_err_times_R_over_eps": err * R / eps, "bound": K * eps, "highest_degree": deg}, tags)
        if cls in ("3d", "axisym"):
            Va = drop.volume_approx
            Vx = volume_3d(cls, R, amps)
            ctx.op()
            ctx.check("C13.volume-1st", abs(Va - Vx) <= 50 * eps * eps * R**3 + 1e-12 * R**3, {"err_over_eps2R3": abs(Va - Vx) / (eps * eps * R**3), "approx": Va, "exact": Vx}, tags)
    else:
        # --- integral quantities ---------------------------------------------
        if cls == "2d":
            ph = np.linspace(0, 2 * PI, 4096, endpoint=False)
            r = harm.rho2d(R, amps, ph)
            Vx = float(np.sum(0.5 * r * r) * (2 * PI / len(ph)))
            r1 = np.gradient(r, ph, edge_order=2)
            r1 = np.real(np.fft.ifft(1j * np.fft.fftfreq(len(ph), 1 / len(ph)) * np.fft.fft(r)))
            Sx = float(np.sum(np.sqrt(r * r + r1 * r1)) * (2 * PI / len(ph)))
            ctx.check("C13.volume", abs(drop.volume - Vx) <= 1e-9 * Vx, {"got": drop.volume, "want": Vx}, tags)
            ctx.check("C13.surface", abs(drop.surface_area - Sx) <= 1e-6 * Sx, {"got": drop.surface_area, "want": Sx}, tags)
            ctx.op(2)
            # setting the volume keeps the relative perturbation and is read back
            d2_ = make(cls, c, R, amps)
            d2_.volume = 2.5 * Vx
            ctx.check("C13.volume", abs(d2_.volume - 2.5 * Vx) <= 1e-12 * Vx and np.array_equal(d2_.amplitudes, drop.amplitudes), {"set": 2.5 * Vx, "get": d2_.volume}, tags)
        elif cls == "3d":
            Vx = volume_3d(cls, R, amps)
            Vl = drop.volume
            ctx.op()
            ctx.check("C13.volume", abs(Vl - Vx) <= 1e-6 * Vx, {"got": Vl, "want": Vx}, tags)
    # --- sphere limit ----------------------------------------------------------
    if not nz:
        d = 2 if cls == "2d" else 3
        Vs = [None, None, PI * R * R, 4 * PI / 3 * R**3][d]
        if cls == "2d":
            ctx.check("C13.sphere-limit", abs(drop.volume - Vs) <= 1e-12 * Vs and abs(drop.surface_area - 2 * PI * R) <= 1e-9 * R and abs(drop.surface_area_approx - 2 * PI * R) <= 1e-12 * R, {"volume": drop.volume, "surface": drop.surface_area}, tags)
            Hc = drop.interface_curvature(ang[0])
        else:
            ctx.check("C13.sphere-limit", abs(drop.volume_approx - Vs) <= 1e-12 * Vs, {"volume_approx": drop.volume_approx}, tags)
            if cls == "3d" and case["mode"] == "integral":
                ctx.check("C13.sphere-limit", abs(drop.volume - Vs) <= 1e-9 * Vs, {"volume": drop.volume}, tags)
            Hc = drop.interface_curvature(*ang) if cls == "3d" else drop.interface_curvature(ang[0])
        ctx.check("C13.sphere-limit", bool(np.allclose(Hc, 1 / R, rtol=1e-12, atol=0)), {"curvature": np.atleast_1d(Hc)[:3]}, tags)
        # the plain spherical droplet of the same centre and radius: outline and triangulation lie on the sphere
        from droplets import SphericalDroplet

        sd = SphericalDroplet(np.array(c, float), R)
        sp = sd.interface_position(*(ang if cls != "axisym" else ang))
        ctx.op()
        ctx.check("C13.sphere-limit", sp.shape == want.shape and bool(np.allclose(sp, want, rtol=0, atol=1e-12 * R)), {"what": "SphericalDroplet.interface_position"}, tags)
        tri = sd.get_triangulation(0.4 * R)
        vert = np.asarray(tri["vertices"], float)
        ctx.check("C13.sphere-limit", bool(np.allclose(np.linalg.norm(vert - np.array(c)[None, :], axis=1), R, rtol=1e-9, atol=0)) and len(vert) >= 4, {"what": "SphericalDroplet.get_triangulation"}, tags)


def expected_positive(tier):
    return ["C13.shape-function", "C13.position", "C13.triangulation", "C13.curvature-1st", "C13.volume-1st", "C13.volume", "C13.surface", "C13.sphere-limit", "C13.argument-form", "polar-angle-omitted-with-zonal-mode", "class-sequences",
            "non-zero-amplitudes", "several-simultaneous-modes", "C13.state-independent", "mutation-sequences"]
