"""C16 - the structure factor is a normalised, symmetry-invariant power spectrum.

Space (kind I): ALL non-zero fields over a small value alphabet on small periodic Cartesian grids (1-3 dim, even/odd
shapes), each combined with all spacings/origins of a menu, all scalings, every cyclic shift, every axis reflection,
every axis permutation, and the smoothed variant.  Reference: direct DFT from the definition (no FFT).
"""
import itertools
import math

import numpy as np

PID = "C16"
RULE = (
    "all fields with values in a 3-letter alphabet (2-letter for the larger shapes) on the declared shapes, zero field excluded; "
    "for every field: reference DFT, Parseval, k-grid for every spacing/origin of the menu, 3 scalings, all cyclic shifts, all axis "
    "reflections, all axis permutations, smoothed variant at requested wave numbers (seven request forms: generic, starting at 0, single value, descending, tuple, array) with and without zero mode; "
    "non-trivial = field is not constant"
    "; the analysed field object must stay unmodified and give the same answer again; grid-sequence histories (2-3 grids of equal shape, every order, fresh fork)"
)
ASSUMPTIONS = [
    "periodic Cartesian grids only (the function's domain); field values from the alphabet; sizes up to 18 cells",
    "element-wise comparisons with atol 1e-12 (unsmoothed) / rtol 1e-9 (smoothed)",
]
TWO_PI = 2 * math.pi

ALPH = {0: [-1.0, 0.0, 2.0], 1: [1.0, 0.0, -3.0], 2: [0.5, 0.0, 4.0]}
SPACINGS = {1: [[1.0], [0.5], [1.6]], 2: [[1.0, 1.0], [0.5, 2.0], [1.6, 1.0]], 3: [[1.0, 1.0, 1.0], [1.0, 2.0, 0.5]]}
ORIGINS = [0.0, 0.3]
SCALES = [-3.0, 0.5, 1e6, 1e-7]


def blocks(tier, seed):
    out = []

    def add(shape, alph, tag):
        n = int(np.prod(shape))
        npre = 2 if len(alph) ** n > 3000 else (1 if len(alph) ** n > 200 else 0)
        if len(alph) ** n > 100000:
            npre = 4
        for pre in itertools.product(range(len(alph)), repeat=npre):
            out.append({"shape": list(shape), "alph": alph, "prefix": list(pre), "tag": tag})

    A = ALPH[0]
    for shape in [(4,), (5,), (2, 3), (2, 2, 2)]:
        add(shape, A, "base")
    add((3, 3), [-1.0, 2.0], "base")
    for shape in [(3, 4), (2, 2, 3)]:
        add(shape, [0.0, 1.0], "base")
    if seed % 3:
        add((2, 3), ALPH[seed % 3], "seed-variant")
        add((5,), ALPH[seed % 3], "seed-variant")
    # histories: the same field on grids of equal shape but different spacings, in every order, each in a fresh process
    for shape in ([5], [3, 3], [4, 4], [2, 2, 2], [3, 3, 3]):
        out.append({"gridseq": True, "shape": shape})
    out.append({"samegrid": True})
    # fields with many cells (beyond 1024 / 4096, odd and even sizes, not powers of two): fixed catalogue, reduced shift menu
    for shape in ([40, 36], [33, 35], [12, 10, 9], [2050], [64, 65], [17, 16, 17]):
        for name in CATALOGUE:
            out.append({"large": True, "shape": shape, "field": name})
    if tier == "thorough":
        for shape in [(3, 3), (6,), (7,), (2, 4), (4, 2)]:
            add(shape, A, "base")
        for shape in [(4, 4), (3, 5), (2, 3, 3)]:
            add(shape, [0.0, 1.0], "base")
    return out


SEQ_SPACINGS = {1: [[1.0], [0.5], [1.6]], 2: [[1.0, 1.0], [0.5, 2.0], [2.0, 0.5], [1.6, 1.0], [3.0, 3.0]], 3: [[1.0, 1.0, 1.0], [1.0, 2.0, 0.5], [0.5, 1.0, 2.0], [2.0, 2.0, 2.0]]}


CATALOGUE = ["lattice-hash", "two-blobs", "oblique-wave"]


def catalogue_field(name, shape):
    idx = np.indices(shape)
    if name == "lattice-hash":  # fixed pseudo-irregular values without any mirror symmetry
        s_ = sum((k + 2) * i for k, i in enumerate(idx))
        return (((s_ * 37 + sum((k + 1) * i * i for k, i in enumerate(idx)) * 11) % 23) / 11.0) - 0.8
    if name == "two-blobs":
        c1 = [0.3 * n for n in shape]
        c2 = [0.72 * n for n in shape]
        r1 = sum((i - c) ** 2 for i, c in zip(idx, c1))
        r2 = sum((1.0 + 0.5 * k) * (i - c) ** 2 for k, (i, c) in enumerate(zip(idx, c2)))
        return (r1 < (0.18 * min(shape)) ** 2).astype(float) + 0.5 * (r2 < (0.12 * min(shape)) ** 2)
    ph = sum(2 * np.pi * (k + 1) * (1 if k % 2 == 0 else -2) * i / n for k, (i, n) in enumerate(zip(idx, shape)))
    return 0.3 + np.sin(ph) + 0.25 * np.cos(2 * np.pi * 3 * idx[0] / shape[0])


def cases(block):
    if block.get("large"):
        yield {"shape": block["shape"], "catalogue": block["field"]}
        return
    if block.get("samegrid"):
        # ONE grid object, several different fields analysed on it one after the other (fresh fork)
        for shape, dx in (([4, 4], [0.5, 2.0]), ([3, 5], [1.0, 1.0]), ([2, 3, 2], [1.0, 2.0, 0.5]), ([6], [1.6])):
            for order in itertools.permutations(range(4), 4):
                yield {"samegrid": {"shape": shape, "dx": dx, "order": list(order)}}
        return
    if block.get("gridseq"):
        shape = block["shape"]
        V = SEQ_SPACINGS[len(shape)]
        for n in (2, 3):
            for idx in itertools.permutations(range(len(V)), n):
                yield {"gridseq": [V[i] for i in idx], "shape": shape}
        # the same spacings in other length units (nanometres, megametres): absolute roundings of the spacing must not identify two grids
        for unit in (1e-9, 1e-12, 1e6):
            for idx in itertools.permutations(range(len(V)), 2):
                yield {"gridseq": [[unit * x for x in V[i]] for i in idx], "shape": shape}
        return
    shape, alph, pre = block["shape"], block["alph"], block["prefix"]
    n = int(np.prod(shape))
    for rest in itertools.product(range(len(alph)), repeat=n - len(pre)):
        idx = list(pre) + list(rest)
        if all(alph[i] == 0 for i in idx):
            continue
        yield {"shape": shape, "alph": alph, "cells": idx}


def make_grid(shape, dx, origin):
    from pde import CartesianGrid

    bounds = [(origin, origin + n * d) for n, d in zip(shape, dx)]
    return CartesianGrid(bounds, shape, periodic=True)


_DFT = {}


def dft_matrix(n):
    if n not in _DFT:
        j = np.arange(n)
        _DFT[n] = np.exp(-2j * np.pi * np.outer(j, j) / n)
    return _DFT[n]


def ref_sf_full(f):
    """|DFT|^2 / (N * sum f^2) on the full index grid (zero mode included)"""
    F = f.astype(complex)
    for ax, n in enumerate(f.shape):
        F = np.moveaxis(np.tensordot(dft_matrix(n), F, axes=([1], [ax])), 0, ax)
    return np.abs(F) ** 2 / (f.size * np.sum(f * f))


def ref_k_full(shape, dx):
    comps = []
    for n, d in zip(shape, dx):
        m = np.arange(n)
        ms = np.where(m <= (n - 1) // 2, m, m - n)  # signed index; for even n, n/2 -> -n/2 (same magnitude)
        comps.append((TWO_PI * ms / (n * d)) ** 2)
    k2 = comps[0]
    for c in comps[1:]:
        k2 = np.add.outer(k2, c)
    return np.sqrt(k2)


def full(shape, flat1, fill=np.nan):
    return np.concatenate([[fill], flat1]).reshape(shape)


def run_gridseq(case, ctx):
    from pde import ScalarField

    from droplets import get_structure_factor as gsf
    from mcx import core

    shape = tuple(case["shape"])
    f = ((np.arange(int(np.prod(shape))) * 7 % 5) - 1.0).reshape(shape)
    Sref = ref_sf_full(f).flat[1:]
    L0 = None

    def body():
        out = []
        for dx in case["gridseq"]:
            g = make_grid(shape, dx, 0.0)
            k, S = gsf(ScalarField(g, f), smoothing=None)
            kmin = TWO_PI / max(n * d for n, d in zip(shape, dx))
            ks, Ss = gsf(ScalarField(g, f), smoothing=0.4 * kmin, wave_numbers=[kmin, 2 * kmin])
            out.append((np.asarray(k), np.asarray(S), np.asarray(ks), np.asarray(Ss)))
        return out

    res = core.in_fork(body)
    def one(dx):
        # exactly the same argument expressions as in the sequence above (a different rounding of kmin would be a different request)
        g = make_grid(shape, dx, 0.0)
        kmin = TWO_PI / max(n * d for n, d in zip(shape, dx))
        return gsf(ScalarField(g, f), smoothing=0.4 * kmin, wave_numbers=[kmin, 2 * kmin])

    alone = [core.in_fork(lambda dx=dx: one(dx)) for dx in case["gridseq"]]
    ctx.op(2 * len(res))
    ctx.count("grid-sequences")
    for i, (dx, (k, S, ks, Ss)) in enumerate(zip(case["gridseq"], res)):
        tags = {"history": True, "position": i}
        ctx.check("C16.k-grid", bool(np.allclose(k, ref_k_full(shape, dx).flat[1:], rtol=1e-13, atol=0)), {"sequence": case["gridseq"], "at": i}, tags)
        ctx.check("C16.dft-definition", bool(np.allclose(S, Sref, rtol=0, atol=1e-12)), {"sequence": case["gridseq"], "at": i}, tags)
        ctx.check("C16.smooth-invariance", np.array_equal(np.asarray(alone[i][1]), Ss) and np.array_equal(np.asarray(alone[i][0]), ks), {"what": "history", "sequence": case["gridseq"], "at": i, "alone": alone[i][1], "in_sequence": Ss}, tags)


def run_samegrid(case, ctx):
    from pde import ScalarField

    from droplets import get_structure_factor as gsf
    from mcx import core

    c = case["samegrid"]
    shape = tuple(c["shape"])
    n = int(np.prod(shape))
    fields = [((np.arange(n) * (3 + 2 * i) % (5 + i)) - 1.0 - 0.5 * i).reshape(shape) for i in range(4)]

    def body():
        g = make_grid(shape, c["dx"], 0.0)
        out = []
        for i in c["order"]:
            k, S = gsf(ScalarField(g, fields[i]), smoothing=None)
            out.append((np.asarray(k), np.asarray(S)))
        return out

    res = core.in_fork(body)
    ctx.op(len(res))
    ctx.count("same-grid-object-sequences")
    kref = ref_k_full(shape, c["dx"]).flat[1:]
    for pos, (i, (k, S)) in enumerate(zip(c["order"], res)):
        tags = {"history": "same-grid-object", "position": pos}
        ctx.check("C16.k-grid", bool(np.allclose(k, kref, rtol=1e-13, atol=0)), {"order": c["order"], "at": pos}, tags)
        ctx.check("C16.dft-definition", bool(np.allclose(S, ref_sf_full(fields[i]).flat[1:], rtol=0, atol=1e-12)), {"order": c["order"], "at": pos}, tags)


def run_case(case, ctx):
    from pde import ScalarField

    from droplets import get_structure_factor as gsf

    if "samegrid" in case:
        return run_samegrid(case, ctx)
    if "gridseq" in case:
        return run_gridseq(case, ctx)

    if "catalogue" in case:
        shape = tuple(case["shape"])
        f = np.asarray(catalogue_field(case["catalogue"], shape), float)
        ctx.count("fields-with-more-than-1024-cells")
    else:
        shape, alph = tuple(case["shape"]), case["alph"]
        f = np.array([alph[i] for i in case["cells"]], float).reshape(shape)
    dim = len(shape)
    nontrivial = np.ptp(f) > 0
    if nontrivial:
        ctx.count("non-constant-field")
    dx0 = SPACINGS[dim][0]
    g0 = make_grid(shape, dx0, 0.0)
    fld = ScalarField(g0, f)
    before = fld.data.tobytes()
    k, S = gsf(fld, smoothing=None)
    ctx.op()
    S = np.asarray(S)
    # the analysed field is the caller's: it must not be modified, and analysing the same object again gives the same answer
    k_again, S_again = gsf(fld, smoothing=None)
    _, S_sm1 = gsf(fld, smoothing="auto", wave_numbers=[1.0, 2.0])
    _, S_sm2 = gsf(fld, smoothing="auto", wave_numbers=[1.0, 2.0])
    ctx.op(3)
    ctx.check("C16.input-unmodified", fld.data.tobytes() == before and np.array_equal(np.asarray(S_again), S) and np.array_equal(np.asarray(k_again), np.asarray(k))
              and np.array_equal(np.asarray(S_sm1), np.asarray(S_sm2)), {"field_changed": fld.data.tobytes() != before})
    n1 = f.size - 1
    ctx.check("C16.shape", S.shape == (n1,) and np.shape(k) == (n1,), {"S": S.shape, "k": np.shape(k)})
    if S.shape != (n1,):
        return
    ctx.check("C16.nonneg", bool(np.all(S >= 0)) and bool(np.all(np.isfinite(S))), {"min": float(np.min(S))})
    parse = 1 - f.size * f.mean() ** 2 / np.sum(f * f)
    ctx.check("C16.parseval", abs(S.sum() - parse) <= 1e-12, {"sum": float(S.sum()), "want": parse})
    Sref = ref_sf_full(f)
    ctx.check("C16.dft-definition", bool(np.allclose(S, Sref.flat[1:], rtol=0, atol=1e-12)), {"got": S, "want": Sref.flat[1:]})
    Sfull = full(shape, S)

    # wave numbers: every spacing / origin
    for dx in SPACINGS[dim]:
        for o in ORIGINS:
            if dx is dx0 and o == 0.0:
                kk, SS = k, S
            else:
                kk, SS = gsf(ScalarField(make_grid(shape, dx, o), f), smoothing=None)
                ctx.op()
                ctx.check("C16.regrid", bool(np.allclose(SS, S, rtol=0, atol=1e-12)), {"dx": dx, "origin": o})
            kref = ref_k_full(shape, dx).flat[1:]
            ctx.check("C16.k-grid", bool(np.allclose(kk, kref, rtol=1e-13, atol=0)), {"dx": dx, "origin": o, "got": kk, "want": kref})
    lam = 2.5
    kk, _ = gsf(ScalarField(make_grid(shape, [lam * d for d in dx0], 0.0), f), smoothing=None)
    ctx.op()
    ctx.check("C16.k-scaling", bool(np.allclose(np.asarray(kk) * lam, k, rtol=1e-13, atol=0)), {"lam": lam})

    # scaling of the field
    for c in SCALES:
        _, Sc = gsf(ScalarField(g0, c * f), smoothing=None)
        ctx.op()
        ctx.check("C16.scale", bool(np.allclose(Sc, S, rtol=0, atol=1e-12)), {"c": c, "maxdiff": float(np.max(np.abs(Sc - S)))})

    # all cyclic shifts
    if "catalogue" in case:  # reduced, fixed menu of shifts for the large fields
        shifts = [tuple(1 if a == b else 0 for a in range(dim)) for b in range(dim)] + [tuple(n // 2 for n in shape), tuple((3 + 2 * a) % n for a, n in enumerate(shape)), tuple(n - 1 for n in shape)]
    else:
        shifts = itertools.product(*[range(n) for n in shape])
    for sh in shifts:
        if not any(sh):
            continue
        fs = np.roll(f, sh, axis=tuple(range(dim)))
        _, Ss = gsf(ScalarField(g0, fs), smoothing=None)
        ctx.op()
        ctx.check("C16.shift", bool(np.allclose(Ss, S, rtol=0, atol=1e-12)), {"shift": sh, "maxdiff": float(np.max(np.abs(Ss - S)))})

    # reflections
    for ax in range(dim):
        fr = np.flip(f, axis=ax)
        kr, Sr = gsf(ScalarField(g0, fr), smoothing=None)
        ctx.op()
        idx = [np.arange(n) for n in shape]
        idx[ax] = (-idx[ax]) % shape[ax]
        want = Sfull[np.ix_(*idx)]
        got = full(shape, Sr)
        ctx.check("C16.reflect", bool(np.allclose(got.flat[1:], want.flat[1:], rtol=0, atol=1e-12)), {"axis": ax})
        a = sorted(zip(np.round(kr, 9), np.round(Sr, 10)))
        b = sorted(zip(np.round(k, 9), np.round(S, 10)))
        ctx.check("C16.reflect-multiset", bool(np.allclose(np.array(a), np.array(b), rtol=0, atol=1e-9)), {"axis": ax})
    # all-axes reflection is element-wise invariant (real field)
    fr = f[tuple(slice(None, None, -1) for _ in shape)]
    _, Sr = gsf(ScalarField(g0, np.ascontiguousarray(fr)), smoothing=None)
    ctx.op()
    ctx.check("C16.reflect", bool(np.allclose(Sr, S, rtol=0, atol=1e-12)), {"axis": "all"})

    # axis permutations (grid permuted alike); use an anisotropic spacing so that the k-grid must follow
    dxa = SPACINGS[dim][1]
    ka, Sa = gsf(ScalarField(make_grid(shape, dxa, 0.0), f), smoothing=None)
    ctx.op()
    for perm in itertools.permutations(range(dim)):
        if perm == tuple(range(dim)):
            continue
        fp = np.ascontiguousarray(np.transpose(f, perm))
        gp = make_grid(fp.shape, [dxa[p] for p in perm], 0.0)
        kp, Sp = gsf(ScalarField(gp, fp), smoothing=None)
        ctx.op()
        ctx.check("C16.permute", bool(np.allclose(full(fp.shape, Sp).flat[1:], np.transpose(full(shape, Sa), perm).flat[1:], rtol=0, atol=1e-12)), {"perm": perm})
        ctx.check("C16.permute-k", bool(np.allclose(full(fp.shape, kp).flat[1:], np.transpose(full(shape, ka), perm).flat[1:], rtol=1e-13, atol=0)), {"perm": perm})

    # unsmoothed + zero mode
    k0, S0 = gsf(ScalarField(g0, f), smoothing=None, add_zero=True)
    ctx.op()
    ctx.check("C16.add-zero", len(k0) == n1 + 1 and k0[0] == 0 and S0[0] == 1 and np.array_equal(k0[1:], k) and np.array_equal(S0[1:], S), {"k0": k0[:2], "S0": S0[:2]})
    for sm in ("none", 0):
        k1, S1 = gsf(ScalarField(g0, f), smoothing=sm)
        ctx.op()
        ctx.check("C16.unsmoothed-aliases", np.array_equal(k1, k) and np.array_equal(S1, S), {"smoothing": sm})

    # smoothed variant
    L = max(n * d for n, d in zip(shape, dx0))
    kmin = TWO_PI / L
    wn = [0.5 * kmin, kmin, 2 * kmin]
    for smoothing in ("auto", 0.4 * kmin):
        ks, Ssm = gsf(ScalarField(g0, f), smoothing=smoothing, wave_numbers=wn)
        ctx.op()
        ctx.check("C16.smooth-k", np.array_equal(np.asarray(ks), np.asarray(wn)) and np.shape(Ssm) == (3,), {"got": ks, "want": wn})
        ctx.check("C16.smooth-finite", bool(np.all(np.isfinite(Ssm))) and bool(np.all(np.asarray(Ssm) >= -1e-15)), {"S": Ssm})
        kz, Sz = gsf(ScalarField(g0, f), smoothing=smoothing, wave_numbers=wn, add_zero=True)
        ctx.op()
        ctx.check("C16.add-zero", len(kz) == 4 and kz[0] == 0 and Sz[0] == 1 and np.array_equal(kz[1:], wn) and np.allclose(Sz[1:], Ssm, rtol=1e-12, atol=0), {"kz": kz, "Sz": Sz})
        # other forms of the request: starting at zero, a single value, descending order, tuple / array containers
        for wn2 in ([0.0, kmin, 3 * kmin], [kmin], [2 * kmin, kmin], (0.0, 0.5 * kmin), np.array([0.0]), np.linspace(0, 2 * kmin, 5)):
            k2_, S2_ = gsf(ScalarField(g0, f), smoothing=smoothing, wave_numbers=wn2)
            kz2, Sz2 = gsf(ScalarField(g0, f), smoothing=smoothing, wave_numbers=wn2, add_zero=True)
            ctx.op(2)
            ctx.count("requests-starting-at-zero" if wn2[0] == 0 else "other-request-forms")
            det = {"requested": np.asarray(wn2), "k": k2_, "S": S2_, "k_add_zero": kz2, "S_add_zero": Sz2}
            ctx.check("C16.smooth-k", np.array_equal(np.asarray(k2_), np.asarray(wn2, float)) and np.shape(S2_) == (len(wn2),) and bool(np.all(np.isfinite(S2_))), det)
            ctx.check("C16.add-zero", len(kz2) == len(wn2) + 1 and kz2[0] == 0 and Sz2[0] == 1 and np.array_equal(kz2[1:], np.asarray(wn2, float)) and np.allclose(Sz2[1:], S2_, rtol=1e-12, atol=0), det)
        for c_ in (-3.0, 1e-7):
            _, Sc = gsf(ScalarField(g0, c_ * f), smoothing=smoothing, wave_numbers=wn)
            ctx.op()
            ctx.check("C16.smooth-invariance", bool(np.allclose(Sc, Ssm, rtol=1e-9, atol=1e-14)), {"what": "scale", "c": c_, "a": Ssm, "b": Sc})
        sh = tuple(1 for _ in shape)
        _, Ss = gsf(ScalarField(g0, np.roll(f, sh, axis=tuple(range(dim)))), smoothing=smoothing, wave_numbers=wn)
        ctx.op()
        ctx.check("C16.smooth-invariance", bool(np.allclose(Ss, Ssm, rtol=1e-9, atol=1e-14)), {"what": "shift", "a": Ssm, "b": Ss})
        _, Sr = gsf(ScalarField(g0, np.flip(f, axis=0)), smoothing=smoothing, wave_numbers=wn)
        ctx.op()
        ctx.check("C16.smooth-invariance", bool(np.allclose(Sr, Ssm, rtol=1e-9, atol=1e-14)), {"what": "reflect", "a": Ssm, "b": Sr})
        if dim > 1:
            perm = tuple(range(1, dim)) + (0,)
            fp = np.ascontiguousarray(np.transpose(f, perm))
            _, Sp = gsf(ScalarField(make_grid(fp.shape, [dx0[p] for p in perm], 0.0), fp), smoothing=smoothing, wave_numbers=wn)
            ctx.op()
            ctx.check("C16.smooth-invariance", bool(np.allclose(Sp, Ssm, rtol=1e-9, atol=1e-14)), {"what": "permute", "a": Ssm, "b": Sp})
        # physical rescaling of the grid: requested wave numbers scale inversely
        if smoothing == "auto":
            gl = make_grid(shape, [lam * d for d in dx0], 0.0)
            _, Sl = gsf(ScalarField(gl, f), smoothing="auto", wave_numbers=[w / lam for w in wn])
            ctx.op()
            ctx.check("C16.smooth-invariance", bool(np.allclose(Sl, Ssm, rtol=1e-9, atol=1e-14)), {"what": "grid-size", "a": Ssm, "b": Sl})
    # automatic wave numbers: 128 values, finite
    ka_, Sa_ = gsf(ScalarField(g0, f))
    ctx.op()
    ctx.check("C16.smooth-auto", len(ka_) == len(Sa_) == 128 and bool(np.all(np.isfinite(Sa_))) and bool(np.all(np.diff(ka_) > 0)), {"n": len(ka_)})


def expected_positive(tier):
    return ["C16.nonneg", "C16.parseval", "C16.dft-definition", "C16.k-grid", "C16.k-scaling", "C16.scale", "C16.shift", "C16.reflect",
            "C16.reflect-multiset", "C16.permute", "C16.add-zero", "C16.smooth-k", "C16.smooth-invariance", "C16.input-unmodified", "non-constant-field", "grid-sequences", "same-grid-object-sequences", "requests-starting-at-zero", "other-request-forms", "fields-with-more-than-1024-cells"]
