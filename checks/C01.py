"""C01 - locating a rendered emulsion returns each droplet once, with exact volume and a half-cell centre.

Space (kind I): complete lattice of placements of 1-2 spherical droplets on Cartesian grids (1-3 dim, all periodicity
masks, isotropic / anisotropic spacings, shifted origins): per axis a position class (interior, straddling the low / high
periodic boundary, one period outside) x a sub-cell offset lattice; radii from a set; plus centred droplets on polar /
spherical grids (radius lattice) and on-axis droplets on cylindrical grids (z lattice).
"""
import itertools
import math

import numpy as np

from mcx import geom

PID = "C01"
RULE = (
    "complete product (dimension x spacing/origin x periodicity mask x radius x per-axis position class x per-axis sub-cell offset) "
    "for one droplet, a reduced complete product for two droplets, radius lattices on polar/spherical grids and z/radius lattices on "
    "cylindrical grids; cases violating the stated preconditions (covered set not one face-connected component, knife-edge cell, droplet "
    "not inside a non-periodic box, winding) are screened and counted; non-trivial = droplet covers >= 3 cells"
    " plus annular polar/spherical grids, radii up to the outer wall, cylindrical z ranges on both sides of 0, elongated boxes with pairs separated by multiples of the other axis' length, UnitGrid objects, centres one and two periods outside; histories (fresh fork): all ordered pairs/triples of grids of one family differing in one attribute, and four analyses on one shared grid object; large diagonal pairs whose bounding boxes overlap; the same placements measured in length units 1e-9, 1e-5, 1e4, 1e12 (all tolerances scale with the unit)"
)
ASSUMPTIONS = [
    "placements restricted to the declared lattices (sub-cell offsets k/4 + seed phase); the half-cell bound is checked, not proved",
    "cylindrical grids with periodic z: droplets are kept at least R + dz away from the z boundary (py-pde 0.58 does not wrap z when rendering)",
]
SPACINGS = {
    1: [([1.0], [0.0]), ([0.5], [-3.7]), ([1.6], [2.25])],
    2: [([1.0, 1.0], [0.0, 0.0]), ([1.6, 0.5], [-3.7, 2.25]), ([0.5, 1.0], [2.25, 0.0])],
    3: [([1.0, 1.0, 1.0], [0.0, 0.0, 0.0]), ([1.0, 1.6, 0.5], [2.25, 0.0, -3.7])],
}
RFACT = {1: [1.6, 2.3, 3.1], 2: [1.6, 2.3, 3.1], 3: [1.6, 2.3]}


def phase(seed):
    return [0.0, 0.07, 0.13, 0.19][seed % 4]


def shape_for(dx, rmax):
    mdx = max(dx)
    return [max(8, int(math.ceil((2 * rmax + 3 * mdx) / d)) + 1) for d in dx]


def blocks(tier, seed):
    out = []
    ph = phase(seed)
    for dim in (1, 2, 3):
        for (dx, org) in SPACINGS[dim]:
            for mask in itertools.product((False, True), repeat=dim):
                for rf in RFACT[dim]:
                    out.append({"kind": "cart1", "dim": dim, "dx": dx, "origin": org, "mask": list(mask), "rf": rf, "phase": ph, "tier": tier})
                    if all(d == 1.0 for d in dx) and not any(org) and dim <= 2 and rf == RFACT[dim][1]:
                        # the same box as a UnitGrid object (a subclass that code may special-case)
                        out.append({"kind": "cart1", "dim": dim, "dx": dx, "origin": org, "mask": list(mask), "rf": rf, "phase": ph, "tier": tier, "unit": True})
    for dim in (1, 2):
        for (dx, org) in SPACINGS[dim][:2]:
            for mask in itertools.product((False, True), repeat=dim):
                out.append({"kind": "cart2", "dim": dim, "dx": dx, "origin": org, "mask": list(mask), "phase": ph, "tier": tier})
    if tier == "thorough":
        for mask in itertools.product((False, True), repeat=3):
            out.append({"kind": "cart2", "dim": 3, "dx": [1.0, 1.0, 1.0], "origin": [0.0, 0.0, 0.0], "mask": list(mask), "phase": ph, "tier": tier})
    for kind in ("polar", "sph"):
        for n, R in ((9, 4.5), (16, 8.0), (16, 5.0)):
            out.append({"kind": kind, "n": n, "R": R, "phase": ph})
        for n, r0, R in ((12, 1.0, 7.0), (10, 2.5, 7.5)):  # annular grids: the droplet covers the hole
            out.append({"kind": kind, "n": n, "R": R, "r0": r0, "phase": ph})
    # z ranges containing 0, starting at 0, and excluding 0 on either side
    for shape, R, z in (((6, 12), 4.0, (-3.0, 6.0)), ((5, 9), 2.5, (0.0, 6.3)), ((6, 12), 4.0, (2.0, 11.0)), ((5, 9), 2.5, (-9.3, -3.0))):
        for pz in (False, True):
            out.append({"kind": "cyl", "shape": list(shape), "R": R, "z": list(z), "pz": pz, "phase": ph, "tier": tier})
    # elongated boxes, every mask: pairs separated along the long axis by multiples of the SHORT axis' length
    for shape in ([8, 24], [24, 8]) + (([6, 6, 18], [18, 6, 6], [6, 18, 6]) if tier == "thorough" else ([6, 6, 18],)):
        for mask in itertools.product((False, True), repeat=len(shape)):
            out.append({"kind": "elong", "shape": list(shape), "mask": list(mask), "phase": ph})
    # the same placements in other length units (absolute tolerances anywhere in the pipeline would show up here)
    for u in UNITS:
        for dim in (1, 2):
            dx, org = SPACINGS[dim][1]
            for mask in itertools.product((False, True), repeat=dim):
                out.append({"kind": "cart1", "dim": dim, "dx": dx, "origin": org, "mask": list(mask), "rf": RFACT[dim][1], "phase": ph, "tier": "units", "unit_length": u})
        out.append({"kind": "cart2", "dim": 2, "dx": SPACINGS[2][1][0], "origin": SPACINGS[2][1][1], "mask": [True, False], "phase": ph, "tier": tier, "unit_length": u})
        out.append({"kind": "cart1", "dim": 3, "dx": SPACINGS[3][1][0], "origin": SPACINGS[3][1][1], "mask": [True, False, True], "rf": RFACT[3][0], "phase": ph, "tier": "quick", "unit_length": u})
        for kind in ("polar", "sph"):
            out.append({"kind": kind, "n": 9, "R": 4.5, "phase": ph, "unit_length": u})
            out.append({"kind": kind, "n": 10, "r0": 2.5, "R": 7.5, "phase": ph, "unit_length": u})
        for pz in (False, True):
            out.append({"kind": "cyl", "shape": [5, 9], "R": 2.5, "z": [-9.3, -3.0], "pz": pz, "phase": ph, "tier": tier, "unit_length": u})
    # large droplets close to each other on a diagonal: the axis-aligned bounding boxes of the two clusters overlap although the
    # droplets are separated by the required gap
    for dim in (2, 3):
        for mask in ([False] * dim, [True] * dim, [True] + [False] * (dim - 1)):
            out.append({"kind": "diag", "dim": dim, "mask": mask, "phase": ph})
    # histories: all ordered pairs of grids that differ in exactly one attribute, analysed one after the other in a fresh process
    for fam in ("cyl", "cart", "polar", "sph"):
        out.append({"kind": "gridseq", "family": fam, "phase": ph})
    return out


def grid_variants(fam):
    """grids of one family that share the shape but differ in one other attribute each (keys of conceivable caches)"""
    if fam == "cyl":
        base = {"kind": "cyl", "shape": [6, 12], "R": 4.0, "z": [-3.0, 6.0], "periodic_z": False}
        return [base, dict(base, z=[-3.0, 15.0]), dict(base, z=[1.0, 10.0]), dict(base, R=6.0), dict(base, periodic_z=True), dict(base, shape=[6, 14])]
    if fam == "cart":
        base = {"kind": "cart", "shape": [9, 9], "dx": [1.0, 1.0], "origin": [0.0, 0.0], "periodic": [True, True]}
        return [base, dict(base, dx=[1.0, 1.5]), dict(base, dx=[1.5, 1.0]), dict(base, dx=[2.0, 2.0]), dict(base, origin=[-4.0, 2.5]), dict(base, periodic=[False, True]),
                dict(base, periodic=[False, False]), dict(base, shape=[9, 12])]
    base = {"kind": fam, "n": 12, "R": 6.0}
    return [base, dict(base, R=9.0), dict(base, n=16), dict(base, R=7.0, r0=1.0)]


def probe_case(g, ph):
    """one resolvable droplet placed generically on grid g"""
    k = g["kind"]
    if k == "cart":
        R = 2.3 * max(g["dx"])
        c = [o + (n // 2 + 0.3 + ph) * d for o, n, d in zip(g["origin"], g["shape"], g["dx"])]
        return {"grid": g, "drops": [[c, R]], "classes": ["interior"] * len(c)}
    if k == "cyl":
        dz = (g["z"][1] - g["z"][0]) / g["shape"][1]
        R = 2.1 * max(dz, g["R"] / g["shape"][0])
        return {"grid": g, "drops": [[[0.0, 0.0, g["z"][0] + (g["shape"][1] // 2 + 0.3 + ph) * dz], R]], "classes": ["on-axis"]}
    dr = geom.radial_spacing(g)
    return {"grid": g, "drops": [[[0.0] * geom.dim_of(g), g.get("r0", 0.0) + (4.3 + ph) * dr]], "classes": ["centred"]}


def axis_classes(periodic):
    return ["interior", "low", "high", "outside+", "outside-"] if periodic else ["interior", "near-low", "near-high"]


def centre_coord(cls, off, lo, n, dx, R):
    if cls == "interior":
        idx = n // 2
    elif cls == "low":
        idx = 0
    elif cls == "high":
        idx = n - 1
    elif cls == "outside+":
        idx = n + n // 2
    elif cls == "outside-":
        idx = -2 * n + 1  # two periods below the box ("outside+" is one period above)
    elif cls == "near-low":
        idx = int(math.ceil(R / dx))
    elif cls == "near-high":
        idx = n - 1 - int(math.ceil(R / dx))
    return lo + (idx + off) * dx


UNITS = [1e-9, 1e-5, 1e4, 1e12]  # the same geometry measured in nanometres ... (the statement holds for any spacing)


def cases(block):
    u = block.get("unit_length")
    if u is None:
        yield from _cases(block)
        return
    for c in _cases({k_: v for k_, v in block.items() if k_ != "unit_length"}):
        yield dict(c, grid=geom.scale_spec(c["grid"], u), drops=[[[x * u for x in cc], R * u] for cc, R in c["drops"]], unit_length=u)


def _cases(block):
    k = block["kind"]
    ph = block["phase"]
    if k == "cart1":
        dim, dx, org, mask, rf = block["dim"], block["dx"], block["origin"], block["mask"], block["rf"]
        R = rf * max(dx)
        shape = shape_for(dx, max(RFACT[dim]) * max(dx))
        g = {"kind": "cart", "shape": shape, "dx": dx, "origin": org, "periodic": mask}
        if block.get("unit"):
            g["unit"] = True
        if block["tier"] == "units":
            offs = [0.25 + ph, 0.75 + ph]
            clsf = axis_classes
        elif dim == 3 and block["tier"] != "thorough":
            offs = [0.0 + ph, 0.5 + ph]
            clsf = lambda p: ["interior", "low", "outside+"] if p else ["interior", "near-high"]
        else:
            offs = [0.0 + ph, 0.25 + ph, 0.5 + ph, 0.75 + ph]
            clsf = axis_classes
        for cls in itertools.product(*[clsf(p) for p in mask]):
            for off in itertools.product(offs, repeat=dim):
                c = [centre_coord(cl, o, org[a], shape[a], dx[a], R) for a, (cl, o) in enumerate(zip(cls, off))]
                yield {"grid": g, "drops": [[c, R]], "classes": list(cls)}
    elif k == "cart2":
        dim, dx, org, mask = block["dim"], block["dx"], block["origin"], block["mask"]
        mdx = max(dx)
        radii = [1.6 * mdx, 2.6 * mdx]
        gap = 3.0 * mdx
        for R1, R2 in itertools.product(radii, repeat=2):
            need = 2 * R1 + 2 * R2 + 2 * gap + 3 * mdx
            shape = [int(math.ceil(need / d)) + 1 for d in dx]
            g = {"kind": "cart", "shape": shape, "dx": dx, "origin": org, "periodic": mask}
            offs = [ph, 0.5 + ph] if dim == 3 else [ph, 0.25 + ph, 0.5 + ph, 0.75 + ph]
            # second droplet displaced along each axis / the diagonal by the minimal admissible centre distance (+ lattice)
            dirs = [list(v) for v in itertools.product((0, 1), repeat=dim) if any(v)]
            for cls in itertools.product(*[(["interior", "low"] if p else ["interior"]) for p in mask]):
                for off in itertools.product(offs, repeat=dim) if dim < 3 else [tuple(offs[:1]) * dim, tuple(offs[1:]) * dim]:
                    c1 = [centre_coord(cl, o, org[a], shape[a], dx[a], R1) if cl != "interior" else org[a] + (int(math.ceil((R1 + mdx) / dx[a])) + o) * dx[a] for a, (cl, o) in enumerate(zip(cls, off))]
                    for v in dirs:
                        nv = math.sqrt(sum(x * x for x in v))
                        for extra in (0.0, 0.37 * mdx):
                            dist = R1 + R2 + gap + extra
                            c2 = [c1[a] + v[a] / nv * dist for a in range(dim)]
                            yield {"grid": g, "drops": [[c1, R1], [c2, R2]], "classes": list(cls)}
    elif k in ("polar", "sph"):
        n, Ro, r0 = block["n"], block["R"], block.get("r0", 0.0)
        dr = (Ro - r0) / n
        g = {"kind": k, "n": n, "R": Ro}
        if r0:
            g["r0"] = r0
        dim = 2 if k == "polar" else 3
        for i in range(40):
            R = r0 + 1.5 * dr + (Ro - r0 - 2.6 * dr) * (i + 0.31 + ph) / 40
            yield {"grid": g, "drops": [[[0.0] * dim, R]], "classes": ["centred"]}
        # droplets reaching into / covering the outermost cell (still inside the grid)
        for frac in (1.3, 0.8, 0.4, 0.1, 0.0):
            yield {"grid": g, "drops": [[[0.0] * dim, Ro - frac * dr * (1 + 0.1 * ph)]], "classes": ["centred"], "outer": True}
    elif k == "elong":
        shape, mask = block["shape"], block["mask"]
        dim = len(shape)
        g = {"kind": "cart", "shape": shape, "dx": [1.0] * dim, "origin": [0.0] * dim, "periodic": mask}
        long_ax = int(np.argmax(shape))
        short = min(shape)
        R = 1.7
        for off in itertools.product((0.2 + ph, 0.6 + ph), repeat=dim):
            c1 = [(3 if a == long_ax else shape[a] // 2) + off[a] for a in range(dim)]
            for mult in (1, 2):
                for jitter in (0.0, 0.4):
                    c2 = list(c1)
                    c2[long_ax] = c1[long_ax] + mult * short + jitter
                    yield {"grid": g, "drops": [[c1, R], [c2, R]], "classes": ["interior"] * dim, "elong": True}
                    if dim == 3:
                        break
    elif k == "diag":
        dim, mask = block["dim"], block["mask"]
        for R1, R2 in ((8.0, 8.0), (9.0, 6.5)) if dim == 2 else ((6.0, 6.0),):
            gap = 3.0
            dist = R1 + R2 + gap
            for v in ([1.0] * dim, [1.0, 0.6, 1.0][:dim], [1.0, -1.0, 1.0][:dim]):
                nv = math.sqrt(sum(x * x for x in v))
                step = [x / nv * dist for x in v]
                n = [int(math.ceil(R1 + R2 + abs(st) + 4)) + 2 for st in step]
                g = {"kind": "cart", "shape": n, "dx": [1.0] * dim, "origin": [0.0] * dim, "periodic": list(mask)}
                for off in ((0.2 + ph, 0.6, 0.4)[:dim], (0.5 + ph, 0.5, 0.5)[:dim]):
                    c1 = [(R1 + 2 + o) if st >= 0 else (n[a] - R1 - 2 - o) for a, (st, o) in enumerate(zip(step, off))]
                    c2 = [c + st for c, st in zip(c1, step)]
                    yield {"grid": g, "drops": [[c1, R1], [c2, R2]], "classes": ["interior"] * dim, "diag": True}
    elif k == "gridseq":
        V = grid_variants(block["family"])
        for a, b in itertools.permutations(range(len(V)), 2):
            yield {"sequence": [probe_case(V[a], ph), probe_case(V[b], ph)]}
        for a, b, c in itertools.permutations(range(min(len(V), 4)), 3):
            yield {"sequence": [probe_case(V[a], ph), probe_case(V[b], ph), probe_case(V[c], ph)]}
        # the caller keeps ONE grid object and analyses several images on it (state cached on the grid must not drift)
        for gv in V:
            yield {"sequence": [dict(probe_case(gv, ph + 0.07 * i), share_grid=True) for i in range(4)]}
    elif k == "cyl":
        shape, Ro, z, pz = block["shape"], block["R"], block["z"], block["pz"]
        dr = Ro / shape[0]
        dz = (z[1] - z[0]) / shape[1]
        g = {"kind": "cyl", "shape": shape, "R": Ro, "z": z, "periodic_z": pz}
        # a droplet reaching the outer radial wall (covers the outermost radial cell centre), where the box is long enough
        Rw = Ro - 0.2 * dr
        if 2 * Rw + 2 * dz <= z[1] - z[0]:
            zc = z[0] + (shape[1] // 2 + 0.3 + ph) * dz
            yield {"grid": g, "drops": [[[0.0, 0.0, zc], Rw]], "classes": ["on-axis"], "outer": True}
        for rf in (1.6, 2.1, 2.7):
            R = rf * max(dr, dz)
            if R + dr > Ro:
                continue
            nz0 = int(math.ceil((R + dz) / dz))
            for iz in range(nz0, shape[1] - nz0):
                for o in (ph, 0.25 + ph, 0.5 + ph, 0.75 + ph):
                    yield {"grid": g, "drops": [[[0.0, 0.0, z[0] + (iz + o) * dz], R]], "classes": ["on-axis"]}
            if block.get("tier") == "thorough" or True:
                # two on-axis droplets, well separated
                R2 = 1.6 * max(dr, dz)
                zc1 = z[0] + (nz0 + ph) * dz
                zc2 = zc1 + R + R2 + 3 * max(dr, dz)
                if zc2 + R2 + dz <= z[1]:
                    yield {"grid": g, "drops": [[[0.0, 0.0, zc1], R], [[0.0, 0.0, zc2], R2]], "classes": ["on-axis", "on-axis"]}


def run_case(case, ctx):
    from droplets import Emulsion, SphericalDroplet, locate_droplets

    if "sequence" in case:
        from mcx import core

        ctx.count("grid-sequences")
        return core.run_sequence_in_fork(run_case, case["sequence"], ctx, tag={"history": True})
    g = case["grid"]
    kind = g["kind"]
    dim = geom.dim_of(g)
    drops = case["drops"]
    cellvol = geom.cell_volumes(g)
    tags = {"grid": kind}
    u = case.get("unit_length", 1.0)  # length unit: every absolute tolerance below is a multiple of it
    if u != 1.0:
        ctx.count("other-length-units")
    if case.get("elong"):
        ctx.count("pairs-separated-by-the-other-axis-length")
    if case.get("diag"):
        ctx.count("diagonal-pairs-with-overlapping-bounding-boxes")
    if g.get("r0"):
        ctx.count("annular-grid")
    if case.get("outer"):
        ctx.count("droplet-reaching-the-outer-wall")
    # ---- reference: covered sets + precondition screens ---------------
    covered = []
    for c, R in drops:
        dist = geom.dist_field(g, c)
        scale = max(g["dx"]) if kind == "cart" else u
        if geom.knife_edge(dist, R, scale):
            ctx.skip("knife-edge")
            return
        cov = dist < R
        if kind == "cart":
            L = geom.cart_lengths(g)
            lo = g["origin"]
            for a in range(dim):
                if g["periodic"][a]:
                    if 2 * R + 2 * g["dx"][a] > L[a]:
                        ctx.skip("precondition:winding")
                        return
                elif c[a] - R < lo[a] or c[a] + R > lo[a] + L[a]:
                    ctx.skip("precondition:outside-nonperiodic-box")
                    return
            comps = geom.components(cov, g["periodic"])
        elif kind == "cyl":
            comps = geom.components(cov, [False, False])
        else:
            comps = geom.components(cov, [False])
        if len(comps) != 1:
            ctx.skip("precondition:covered-set-not-connected")
            return
        covered.append(cov)
    for i in range(len(drops)):
        for j in range(i + 1, len(drops)):
            if kind == "cart":
                gap = geom.point_dist(g, drops[i][0], drops[j][0]) - drops[i][1] - drops[j][1]
                need = 3 * max(g["dx"])
            else:
                gap = abs(drops[i][0][2] - drops[j][0][2]) - drops[i][1] - drops[j][1]
                need = 3 * max(g["R"] / g["shape"][0], (g["z"][1] - g["z"][0]) / g["shape"][1])
                if g["periodic_z"]:
                    Lz = g["z"][1] - g["z"][0]
                    gap = min(gap, Lz - abs(drops[i][0][2] - drops[j][0][2]) - drops[i][1] - drops[j][1])
            if gap < need - 1e-9 * u:
                ctx.skip("precondition:gap")
                return
    if any(cov.sum() >= 3 for cov in covered):
        ctx.count("covers>=3cells")
    if kind == "cart":
        if any(cl in ("low", "high") for cl in case["classes"]):
            ctx.count("straddling-periodic-boundary")
        if sum(cl in ("low", "high") for cl in case["classes"]) >= 2:
            ctx.count("straddling-periodic-corner")
        if any(cl.startswith("outside") for cl in case["classes"]):
            ctx.count("centre-outside-box")
        if len(set(g["dx"])) > 1:
            ctx.count("anisotropic")
    if len(drops) == 2:
        ctx.count("two-droplets")

    # ---- drive the implementation -------------------------------------
    grid = geom.make_grid(g, share=bool(case.get("share_grid")))
    em0 = Emulsion([SphericalDroplet(np.array(c, float), R) for c, R in drops])
    field = em0.get_phasefield(grid)
    ctx.op()
    image = field.data.tobytes()
    em = locate_droplets(field)
    ctx.op()
    ctx.check("C01.image-unmodified", field.data.tobytes() == image, None, tags)
    ctx.check("C01.count", len(em) == len(drops), {"returned": [[list(map(float, d.position)), d.radius] for d in em], "want": len(drops)}, tags)
    Vtot = float(sum(cellvol[cov].sum() for cov in covered))
    ctx.check("C01.integral", abs(field.integral - Vtot) <= 1e-9 * Vtot, {"integral": field.integral, "covered": Vtot}, tags)
    if len(em) != len(drops):
        return
    # match located droplets to originals (nearest centre, periodic metric)
    def pd(p, q):
        if kind == "cart":
            return geom.point_dist(g, p, q)
        return float(np.linalg.norm(np.asarray(p) - np.asarray(q)))

    order = list(range(len(drops)))
    if len(drops) == 2 and pd(em[0].position, drops[0][0]) + pd(em[1].position, drops[1][0]) > pd(em[0].position, drops[1][0]) + pd(em[1].position, drops[0][0]):
        order = [1, 0]
    # the documented options that do not touch the geometry (an interface width attached to the results - tiny, or larger than the
    # droplets -, a minimal radius below every droplet) leave count, volume and centre as they are
    Rmin = min(R for _, R in drops)
    for opt in ({"interface_width": 1e-3 * Rmin}, {"interface_width": 2.5 * max(R for _, R in drops)}, {"minimal_radius": 0.25 * Rmin}):
        em_o = locate_droplets(field, **opt)
        ctx.op()
        same = len(em_o) == len(em) and all(bool(np.array_equal(a.position, b.position)) and abs(a.volume - b.volume) <= 1e-12 * b.volume for a, b in zip(em_o, em))
        ctx.check("C01.options-neutral", same, {"option": {k: float(v) for k, v in opt.items()}, "with_option": [[list(map(float, d.position)), float(d.volume)] for d in em_o],
                                                "plain": [[list(map(float, d.position)), float(d.volume)] for d in em]}, tags)
    for k_, d in enumerate(em):
        c, R = drops[order[k_]]
        cov = covered[order[k_]]
        V = float(cellvol[cov].sum())
        if g.get("r0"):
            V += geom.sphere_volume(g["r0"], dim)  # the droplet also covers the hole of an annular grid, which holds no cells
        ctx.check("C01.volume", abs(d.volume - V) <= 1e-9 * V, {"got": d.volume, "want": V}, tags)
        p = np.asarray(d.position, float)
        if kind == "cart":
            L = geom.cart_lengths(g)
            for a in range(dim):
                delta = float(geom.min_image(p[a] - c[a], L[a], g["periodic"][a]))
                ctx.check("C01.centre", abs(delta) <= g["dx"][a] / 2 + 1e-9 * u, {"axis": a, "delta": delta, "dx": g["dx"][a], "got": p, "want": c}, tags)
                if g["periodic"][a]:
                    ctx.check("C01.inbox", g["origin"][a] - 1e-12 * u <= p[a] <= g["origin"][a] + L[a] + 1e-12 * u, {"axis": a, "pos": p}, tags)
        elif kind in ("polar", "sph"):
            dr = geom.radial_spacing(g)
            ctx.check("C01.centre", bool(np.all(p == 0)) and abs(d.radius - R) <= dr / 2 + 1e-9 * u, {"pos": p, "radius": d.radius, "want": R, "dr": dr}, tags)
        else:
            dz = (g["z"][1] - g["z"][0]) / g["shape"][1]
            ctx.check("C01.centre", abs(p[0]) <= 1e-12 * u and abs(p[1]) <= 1e-12 * u and abs(p[2] - c[2]) <= dz / 2 + 1e-9 * u, {"pos": p, "want": c, "dz": dz}, tags)
            if g["periodic_z"]:
                ctx.check("C01.inbox", g["z"][0] - 1e-12 * u <= p[2] <= g["z"][1] + 1e-12 * u, {"pos": p}, tags)


def expected_positive(tier):
    return ["C01.count", "C01.volume", "C01.centre", "C01.inbox", "C01.integral", "straddling-periodic-boundary", "straddling-periodic-corner",
            "centre-outside-box", "anisotropic", "two-droplets", "covers>=3cells",
            "grid-sequences", "pairs-separated-by-the-other-axis-length", "annular-grid", "droplet-reaching-the-outer-wall", "other-length-units", "diagonal-pairs-with-overlapping-bounding-boxes", "C01.options-neutral"]
