"""C08 - saving and loading returns an equal object (kind H/I).

Space: all collections over a catalogue of droplet values of every class and dimension (incl. unset widths, zero radius,
awkward floats): emulsions of size 0-3, time courses of <= 3 frames over a frame alphabet (incl. empty and untyped-empty
frames), tracks of length 0-3, track lists of <= 3 tracks (incl. empty), every time variant; every ordered pair of
classes of equal dimension as mixed members ('raises or equal'); write-A-then-write-B-then-read histories on one path.
"""
import itertools
import math
import os
import shutil
import tempfile

import numpy as np

PID = "C08"
RULE = (
    "complete products over the droplet-value catalogue: emulsions = all ordered tuples (len 0..3) of values of one class/layout; "
    "time courses = all frame sequences (len 0..3, one 12-frame course) over a frame alphabet incl. empty frames x time variants; tracks = all "
    "ordered tuples (len 0..3) x time variants; track lists = all sequences (len 0..3) over a track alphabet incl. the empty track; mixed = "
    "all ordered pairs of catalogue values with equal dimension but different class; overwrite = all ordered pairs of a collection "
    "alphabet written to the same path; non-trivial = collection has >= 1 droplet"
    "; members are additionally brought to their catalogue value after construction (through the property setters, through in-place writes to the data record)"
)
ASSUMPTIONS = [
    "values restricted to the catalogue; files written to a RAM-backed temporary directory through the library's own to_file/from_file",
    "HDF5/h5py are environment; equality judged by the library's __eq__ AND by an own bit-level comparison (class, data bytes, times)",
]
TIMEV = {
    "ints": [0, 1, 2, 3],
    "half-offset": [-0.5, 0, 0.5, 1.0],
    "neg-int": [-2, 0, 1, 5],
    "tenths": [0.1, 0.2, 0.30000000000000004, 0.4],
    "nonuniform": [-3.75, 1e-3, 2.5, 1e6],
    "int-ends": [0, 0.5, 2, 3],  # integer-typed first / last stamps around a non-integer one
    "not-monotone": [1, 0.25, 3.5, 2],  # a clock that restarts
}
THIRD = 1.0 / 3.0


def catalogue():
    """key -> list of constructor argument dicts; key = (class name, dim, modes)"""
    C = {}
    for d in (1, 2, 3):
        P = [[0.5, -2.25, THIRD][:d], [1e-17, 7.0, -0.1][:d], [-4.0, 0.0, 2.0][:d]]
        C[("SphericalDroplet", d, 0)] = [dict(position=P[0], radius=1.0), dict(position=P[1], radius=0.0), dict(position=P[2], radius=THIRD)]
        C[("DiffuseDroplet", d, 0)] = [dict(position=P[0], radius=2.0, interface_width=None), dict(position=P[1], radius=0.3, interface_width=0.7), dict(position=P[2], radius=1.0, interface_width=0.0)]
    P2 = [[0.5, -2.25], [3.0, THIRD]]
    for m, amps in ((1, [[0.1], [-1.0]]), (2, [[0.1, -0.2], [0.0, 1.0]]), (4, [[0.1, 0.0, -0.3, THIRD], [0.0, 0.0, 0.0, 0.0]])):
        C[("PerturbedDroplet2D", 2, m)] = [dict(position=P2[i], radius=1.5 + i, interface_width=[None, 0.4][i], amplitudes=a) for i, a in enumerate(amps)]
        C[("PerturbedDroplet2D", 2, m)].append(dict(position=P2[0], radius=0.0, interface_width=0.0, amplitudes=amps[0]))  # vanished, sharp, amplitudes kept
    P3 = [[0.5, -2.25, 1.0], [0.0, 3.0, THIRD]]
    for m, amps in ((1, [[0.2], [-0.5]]), (3, [[0.1, -0.2, 0.05], [0.0, 0.0, 1.0]])):
        C[("PerturbedDroplet3D", 3, m)] = [dict(position=P3[i], radius=1.5 + i, interface_width=[0.4, None][i], amplitudes=a) for i, a in enumerate(amps)]
    for m, amps in ((1, [[0.2], [-0.5]]), (2, [[0.1, -0.2], [0.0, THIRD]]), (3, [[0.1, 0.2, 0.3], [0.0, 0.0, -1.0]])):
        C[("PerturbedDroplet3DAxisSym", 3, m)] = [dict(position=[0.0, 0.0, [1.0, -2.5][i]], radius=1.5 + i, interface_width=[0.4, None][i], amplitudes=a) for i, a in enumerate(amps)]
        C[("PerturbedDroplet3DAxisSym", 3, m)].append(dict(position=[0.0, 0.0, 0.5], radius=0.0, interface_width=0.0, amplitudes=amps[0]))
        # on the axis within the class' own tolerance, but not bitwise +0.0 (tiny offset, negative zero)
        C[("PerturbedDroplet3DAxisSym", 3, m)].append(dict(position=[3e-9, -0.0, 0.75], radius=1.25, interface_width=0.3, amplitudes=amps[1]))
    return C


CAT = catalogue()
KEYS = sorted(CAT)


_HOW = {"how": "init"}


def make(key, i, how=None):
    """catalogue value i of a class; how = 'init' (constructor), 'setters' (a neutral droplet brought to the value through the
    property setters) or 'data' (through in-place writes to the fields of its data record): what is saved is the object's state,
    however it was reached"""
    from droplets import droplets as dm

    how = how or _HOW["how"]
    cls = getattr(dm, key[0])
    a = dict(CAT[key][i])
    a["position"] = np.array(a["position"], float)
    if "amplitudes" in a:
        a["amplitudes"] = np.array(a["amplitudes"], float)
    if how == "init":
        return cls(**a)
    neutral = {"position": np.full(len(a["position"]), 0.25), "radius": 1.0}
    if key[0] == "PerturbedDroplet3DAxisSym":
        neutral["position"] = np.array([0.0, 0.0, 0.25])  # this class lives on the symmetry axis
    if "interface_width" in a:
        neutral["interface_width"] = 0.5
    if "amplitudes" in a:
        neutral["amplitudes"] = np.full(len(a["amplitudes"]), 0.05)
    d = cls(**neutral)
    if how == "setters":
        d.position = a["position"]
        d.radius = a["radius"]
        if "interface_width" in a:
            d.interface_width = a["interface_width"]
        if "amplitudes" in a:
            d.amplitudes = a["amplitudes"]
    else:
        d.data["position"][...] = a["position"]
        d.data["radius"] = a["radius"]
        if "interface_width" in a:
            d.data["interface_width"] = math.nan if a["interface_width"] is None else a["interface_width"]
        if "amplitudes" in a:
            d.data["amplitudes"][...] = a["amplitudes"]
    return d


def blocks(tier, seed):
    out = []
    ml = 4 if tier == "thorough" else 3  # longest member tuple / frame sequence / track list
    for ki in range(len(KEYS)):
        out.append({"kind": "emulsion", "key": ki, "maxlen": ml})
        for tv in TIMEV:
            out.append({"kind": "track", "key": ki, "times": tv, "maxlen": ml})
        for tv in (list(TIMEV) if tier == "thorough" else [list(TIMEV)[(ki + seed) % len(TIMEV)]]):
            out.append({"kind": "etc", "key": ki, "times": tv, "maxlen": ml})
        for tv in (list(TIMEV) if tier == "thorough" else [list(TIMEV)[(ki + seed + 1) % len(TIMEV)]]):
            out.append({"kind": "tracklist", "key": ki, "times": tv, "maxlen": ml})
        out.append({"kind": "overwrite", "key": ki})
    for tv in TIMEV:
        out.append({"kind": "etc", "key": KEYS.index(("DiffuseDroplet", 2, 0)), "times": tv, "maxlen": ml})
        out.append({"kind": "tracklist", "key": KEYS.index(("SphericalDroplet", 1, 0)), "times": tv, "maxlen": ml})
    out.append({"kind": "etc-mixed-frames"})
    out.append({"kind": "long"})
    for d in (1, 2, 3):
        out.append({"kind": "mixed", "dim": d})
    uniq, seen = [], set()
    for b in out:
        k = repr(sorted(b.items()))
        if k not in seen:
            seen.add(k)
            uniq.append(b)
    return uniq


def tuples(n, maxlen):
    for L in range(maxlen + 1):
        yield from itertools.product(range(n), repeat=L)


def cases(block):
    k = block["kind"]
    if k == "emulsion":
        n = len(CAT[KEYS[block["key"]]])
        for t in tuples(n, block.get("maxlen", 3)):
            for how in (("init", "setters", "data") if len(t) in (1, 2) else ("init",)):
                yield {"kind": k, "key": block["key"], "members": list(t), "typed": True, "how": how}
        yield {"kind": k, "key": block["key"], "members": [], "typed": False}
    elif k == "track":
        n = len(CAT[KEYS[block["key"]]])
        for t in tuples(n, block.get("maxlen", 3)):
            for how in (("init", "setters", "data") if len(t) == 2 else ("init",)):
                yield {"kind": k, "key": block["key"], "members": list(t), "times": block["times"], "info": len(t) == 2, "how": how}
    elif k == "etc":
        # frame alphabet: untyped empty, typed empty, [v0], [v1], [v0, v1], [v1, v1, v0]
        for t in tuples(6, block.get("maxlen", 3)):
            yield {"kind": k, "key": block["key"], "frames": list(t), "times": block["times"], "info": len(t) == 1}
    elif k == "tracklist":
        # track alphabet: empty, [v0], [v1, v0], [v0, v0, v1]
        for t in tuples(4, block.get("maxlen", 3)):
            yield {"kind": k, "key": block["key"], "tracks": list(t), "times": block["times"]}
    elif k == "overwrite":
        for a in range(5):
            for b in range(5):
                for typ in ("emulsion", "etc", "track", "tracklist"):
                    yield {"kind": k, "key": block["key"], "a": a, "b": b, "type": typ}
    elif k == "etc-mixed-frames":
        # frames of different classes / layouts in one time course (each frame is homogeneous)
        ks = [KEYS.index(x) for x in (("SphericalDroplet", 2, 0), ("DiffuseDroplet", 2, 0), ("PerturbedDroplet2D", 2, 2), ("PerturbedDroplet2D", 2, 4))]
        for t in tuples(len(ks), 3):
            yield {"kind": k, "keys": [ks[i] for i in t]}
        ks = [KEYS.index(x) for x in (("SphericalDroplet", 3, 0), ("PerturbedDroplet3D", 3, 3), ("PerturbedDroplet3DAxisSym", 3, 3))]
        for t in tuples(len(ks), 3):
            yield {"kind": k, "keys": [ks[i] for i in t]}
    elif k == "long":
        for n in (11, 12, 101):
            for typ in ("etc", "tracklist", "track"):
                yield {"kind": k, "n": n, "type": typ}
    elif k == "mixed":
        ks = [i for i, key in enumerate(KEYS) if key[1] == block["dim"]]
        for a in ks:
            for b in ks:
                if KEYS[a][0] != KEYS[b][0] or KEYS[a][2] != KEYS[b][2]:
                    for typ in ("emulsion", "track", "etc-frame"):
                        yield {"kind": k, "a": a, "b": b, "type": typ}


_TMP = None


def tmp():
    global _TMP
    if _TMP is None or not os.path.isdir(_TMP) or not _TMP.endswith(str(os.getpid())):
        base = "/dev/shm" if os.path.isdir("/dev/shm") else tempfile.gettempdir()
        _TMP = os.path.join(base, f"mcx_c08_{os.getpid()}")
        os.makedirs(_TMP, exist_ok=True)
        import atexit

        atexit.register(shutil.rmtree, _TMP, True)
    return os.path.join(_TMP, "f.hdf5")


def dkey(d):
    from numpy.lib.recfunctions import structured_to_unstructured

    return (type(d).__name__, np.asarray(structured_to_unstructured(d.data), float).tobytes())


def own_equal(kind, a, b):
    """bit-level comparison independent of the library's __eq__"""
    if kind == "emulsion":
        return [dkey(x) for x in a] == [dkey(x) for x in b]
    if kind == "etc":
        return len(a.times) == len(b.times) and all(float(s) == float(t) for s, t in zip(a.times, b.times)) and len(a.emulsions) == len(b.emulsions) and all(own_equal("emulsion", x, y) for x, y in zip(a.emulsions, b.emulsions))
    if kind == "track":
        return len(a.times) == len(b.times) and all(float(s) == float(t) for s, t in zip(a.times, b.times)) and [dkey(x) for x in a.droplets] == [dkey(x) for x in b.droplets]
    if kind == "tracklist":
        return len(a) == len(b) and all(own_equal("track", x, y) for x, y in zip(a, b))
    raise ValueError(kind)


CLS = {}


def classes():
    if not CLS:
        from droplets import DropletTrack, DropletTrackList, Emulsion, EmulsionTimeCourse

        CLS.update(emulsion=Emulsion, etc=EmulsionTimeCourse, track=DropletTrack, tracklist=DropletTrackList)
    return CLS


def roundtrip(ctx, kind, obj, tags=None, info=None, clause="C08.equal"):
    cls = classes()[kind]
    path = tmp()
    if os.path.exists(path):
        os.remove(path)
    if info is not None:
        obj.to_file(path, info=info)
    else:
        obj.to_file(path)
    ctx.op()
    back = cls.from_file(path, progress=False) if kind in ("etc", "tracklist") else cls.from_file(path)
    ctx.op()
    lib = bool(back == obj)
    own = own_equal(kind, obj, back)
    ctx.check(clause, lib and own and type(back) is cls, {"library_eq": lib, "own_eq": own, "type": type(back).__name__}, tags)
    return back


def frame(key, code):
    from droplets import Emulsion

    if code == 0:
        return Emulsion()
    if code == 1:
        return Emulsion.empty(make(key, 0))
    members = {2: [0], 3: [1], 4: [0, 1], 5: [1, 1, 0]}[code]
    return Emulsion([make(key, i) for i in members])


def track(key, code, times):
    from droplets import DropletTrack

    members = {0: [], 1: [0], 2: [1, 0], 3: [0, 0, 1]}[code]
    return DropletTrack([make(key, i) for i in members], times=times[: len(members)])


def collection(key, code, typ):
    """small alphabet of collections used by the overwrite histories"""
    from droplets import DropletTrackList, Emulsion, EmulsionTimeCourse

    T = TIMEV["half-offset"]
    if typ == "emulsion":
        return [Emulsion(), frame(key, 2), frame(key, 4), frame(key, 5), frame(key, 3)][code]
    if typ == "etc":
        fr = [[], [0], [4, 0], [2, 3, 5], [1, 1]][code]
        return EmulsionTimeCourse([frame(key, c) for c in fr], times=T[: len(fr)])
    if typ == "track":
        return track(key, [0, 1, 2, 3, 1][code], T if code < 4 else [7.5])
    if typ == "tracklist":
        tl = [[], [0], [3, 0], [1, 2, 3], [2]][code]
        return DropletTrackList([track(key, c, T) for c in tl])


def run_case(case, ctx):
    from droplets import DropletTrack, DropletTrackList, Emulsion, EmulsionTimeCourse

    k = case["kind"]
    _HOW["how"] = case.get("how", "init")
    if _HOW["how"] != "init":
        ctx.count("members-brought-to-their-value-after-construction")
    if k in ("emulsion", "track", "etc", "tracklist", "overwrite"):
        key = KEYS[case["key"]]
        tags = {"class": key[0], "dim": key[1], "modes": key[2], "kind": k}
    if k == "emulsion":
        members = [make(key, i) for i in case["members"]]
        em = Emulsion(members) if (members or not case["typed"]) else Emulsion.empty(make(key, 0))
        if members:
            ctx.count("non-empty-collections")
        else:
            ctx.count("empty-collections")
        if any(m.data.dtype.names and "interface_width" in m.data.dtype.names and np.isnan(m.data["interface_width"]) for m in members):
            ctx.count("unset-width-members")
        roundtrip(ctx, "emulsion", em, tags)
    elif k == "track":
        T = TIMEV[case["times"]]
        tr_ = DropletTrack([make(key, i) for i in case["members"]], times=T[: len(case["members"])])
        roundtrip(ctx, "track", tr_, dict(tags, times=case["times"]), info={"note": [1, 2]} if case["info"] else None)
        if case["members"]:
            ctx.count("non-empty-collections")
    elif k == "etc":
        T = TIMEV[case["times"]]
        etc = EmulsionTimeCourse([frame(key, c) for c in case["frames"]], times=T[: len(case["frames"])])
        roundtrip(ctx, "etc", etc, dict(tags, times=case["times"]), info={"p": 3.5} if case["info"] else None)
        if any(c < 2 for c in case["frames"]) and any(c >= 2 for c in case["frames"]):
            ctx.count("mixture-of-empty-and-non-empty-frames")
    elif k == "tracklist":
        T = TIMEV[case["times"]]
        tl = DropletTrackList([track(key, c, T) for c in case["tracks"]])
        roundtrip(ctx, "tracklist", tl, dict(tags, times=case["times"]))
        if 0 in case["tracks"] and any(c for c in case["tracks"]):
            ctx.count("mixture-of-empty-and-non-empty-tracks")
    elif k == "overwrite":
        typ = case["type"]
        A = collection(key, case["a"], typ)
        B = collection(key, case["b"], typ)
        path = tmp()
        if os.path.exists(path):
            os.remove(path)
        A.to_file(path)
        ctx.op()
        roundtrip_keep = classes()[typ]
        B.to_file(path)
        ctx.op()
        back = roundtrip_keep.from_file(path, progress=False) if typ in ("etc", "tracklist") else roundtrip_keep.from_file(path)
        ctx.op()
        ctx.check("C08.overwrite", bool(back == B) and own_equal(typ, B, back), {"a": case["a"], "b": case["b"], "type": typ}, tags)
    elif k == "etc-mixed-frames":
        T = TIMEV["nonuniform"]
        etc = EmulsionTimeCourse([frame(KEYS[ki], 4 + (j % 2)) for j, ki in enumerate(case["keys"])], times=T[: len(case["keys"])])
        roundtrip(ctx, "etc", etc, {"kind": k})
        if len({KEYS[ki][0] for ki in case["keys"]}) > 1:
            ctx.count("time-course-with-different-classes-per-frame")
    elif k == "long":
        n, typ = case["n"], case["type"]
        key = ("DiffuseDroplet", 2, 0)
        times = [0.25 * i - 3 for i in range(n)]
        if typ == "etc":
            obj = EmulsionTimeCourse([frame(key, 2 + (i % 4)) for i in range(n)], times=times)
        elif typ == "tracklist":
            obj = DropletTrackList([track(key, 1 + (i % 3), [float(i), i + 0.5, i + 1.0]) for i in range(n)])
        else:
            obj = DropletTrack([make(key, i % 3) for i in range(n)], times=times)
        roundtrip(ctx, typ, obj, {"kind": "long", "n": n, "type": typ})
        ctx.count("collections-with->=11-members")
    elif k == "mixed":
        ka, kb = KEYS[case["a"]], KEYS[case["b"]]
        typ = case["type"]
        tags = {"kind": "mixed", "type": typ, "classes": [ka[0], kb[0]], "same_layout": ka[2] == kb[2] and {ka[0], kb[0]} == {"PerturbedDroplet3D", "PerturbedDroplet3DAxisSym"}}
        a, b = make(ka, 0), make(kb, 1)
        if typ == "emulsion":
            obj, kind = Emulsion([a, b]), "emulsion"
        elif typ == "track":
            try:
                obj, kind = DropletTrack([a, b], times=[0.5, 1.5]), "track"
            except Exception:
                ctx.count("mixed-rejected-at-construction")
                ctx.check("C08.raise-or-equal", True)
                return
        else:
            obj, kind = EmulsionTimeCourse([Emulsion([a, b]), Emulsion([b])], times=[1, 2]), "etc"
        path = tmp()
        if os.path.exists(path):
            os.remove(path)
        try:
            obj.to_file(path)
            ctx.op()
        except Exception:
            ctx.count("mixed-write-raises")
            ctx.check("C08.raise-or-equal", True)
            return
        ctx.count("mixed-write-succeeds")
        cls = classes()[kind]
        try:
            back = cls.from_file(path, progress=False) if kind == "etc" else cls.from_file(path)
            ctx.op()
        except Exception as e:  # a file that cannot be read back is also 'something different'
            ctx.check("C08.raise-or-equal", False, {"read": repr(e)}, tags)
            return
        try:
            lib_eq = bool(back == obj)
        except Exception:
            lib_eq = False
        ctx.check("C08.raise-or-equal", lib_eq and own_equal(kind, obj, back), {"written": [ka, kb], "read_classes": [type(d).__name__ for d in (back if kind == "emulsion" else back.droplets if kind == "track" else back.emulsions[0])]}, tags)


def expected_positive(tier):
    return ["C08.equal", "C08.overwrite", "C08.raise-or-equal", "non-empty-collections", "empty-collections", "unset-width-members",
            "mixture-of-empty-and-non-empty-frames", "mixture-of-empty-and-non-empty-tracks", "mixed-write-raises", "collections-with->=11-members",
            "time-course-with-different-classes-per-frame", "members-brought-to-their-value-after-construction"]
