"""C05 - refined localisation recovers position, radius and interface width.

Space (kind I): complete lattice of placements (position class x 3 sub-cell offsets per axis) of 1-2 diffuse droplets on
Cartesian grids (1-3 dim, all periodicity masks, isotropic / mildly anisotropic), radii {3.2, 4.5} cells, widths {1, 1.5, 2}
cells, x threshold rule {0.5, extrema, mean, otsu} x intensity option {standard; 4 affine maps with supplied levels;
supplied + fitted; automatic + fitted}; polar / spherical (centred) and cylindrical (on-axis) grids.
"""
import itertools
import math

import numpy as np

from mcx import geom

PID = "C05"
RULE = (
    "complete product (grid x mask x radius x width x position class per axis x sub-cell offset per axis) x threshold rule x intensity "
    "option; two-droplet configurations with surface gap >= 10 widths; droplets are kept inside non-periodic boxes with a margin of "
    "R + 3w; strongly non-square boxes (18x40, 40x18; thorough 12x12x30) with every straddling class; big + small pairs (R 14 / 3.2, gap 10 w); non-trivial = every case (each involves at least one least-squares fit)"
    " plus annular grids, cylindrical z ranges excluding 0, and histories in fresh forks: all ordered pairs/triples of five intensity maps sharing one refine_args dict, and twelve analyses on one shared grid object; numeric thresholds 0.1 / 0.25 / 0.75 / 0.9 of the level range with radius/width ratios down to 1.6; ordered pairs/triples of four images on equal grids analysed with two worker processes (controlled pool) in one fresh process"
)
ASSUMPTIONS = [
    "radius >= 3.2 cells, width 1-2 cells, mild anisotropy (1 : 1.25) as stated; recovery demanded to 1e-4 relative (position: 1e-4 dx)",
    "automatic intensity levels are only checked together with fitting (as stated); cylindrical droplets stay R + 3w away from the z boundary",
]
RULES = [0.5, "extrema", "mean", "otsu"]
AFF = [(2.0, -1.0), (0.2, -0.1), (1.0, -2.0), (1.0, 5.0)]
INTENS = ["standard"] + [f"affine{i}-supplied" for i in range(4)] + ["affine0-supplied-fitted", "affine3-supplied-fitted", "affine1-auto-fitted", "affine3-auto-fitted", "standard-auto-fitted"]
OFFS = [0.0, 0.33, 0.71]


def blocks(tier, seed):
    ph = [0.0, 0.05, 0.11][seed % 3]
    out = []
    for dim in ((1, 2, 3) if tier == "thorough" else (1, 2)):
        spac = {1: [[1.0], [0.5]], 2: [[1.0, 1.0], [1.0, 1.25]], 3: [[1.0, 1.0, 1.0]]}[dim]
        for dx in spac:
            for mask in itertools.product((False, True), repeat=dim):
                for Rf in (3.2, 4.5):
                    if dim == 3 and Rf > 4:
                        continue
                    out.append({"kind": "cart", "dim": dim, "dx": dx, "mask": list(mask), "Rf": Rf, "phase": ph, "tier": tier})
    if tier != "thorough":
        out.append({"kind": "cart", "dim": 3, "dx": [1.0, 1.0, 1.0], "mask": [True, False, True], "Rf": 3.2, "phase": ph, "tier": tier})
    for dx in ([1.0, 1.0], [1.0, 1.25]):
        for mask in itertools.product((False, True), repeat=2):
            out.append({"kind": "cart2", "dx": dx, "mask": list(mask), "phase": ph})
    for shape in ([18, 40], [40, 18]):
        for mask in ([True, True], [False, True], [True, False]):
            out.append({"kind": "rect", "shape": shape, "mask": mask, "phase": ph})
    if tier == "thorough":
        for shape in ([12, 12, 30], [30, 12, 12]):
            out.append({"kind": "rect", "shape": shape, "mask": [True, True, True], "phase": ph})
    for mask in ([False, False], [True, True]):
        out.append({"kind": "bigsmall", "mask": mask, "phase": ph})
    # numeric thresholds away from the mid level (still between the two intensity levels), incl. small droplets with wide interfaces
    for mask in ([True, False], [False, False]):
        out.append({"kind": "numthr", "mask": mask, "phase": ph})
    out.append({"kind": "nproc-history", "phase": ph})
    # centres a small fraction of a cell away from a periodic boundary (either side); image data in other numeric forms
    for mask in ([True], [True, True], [True, False], [False, True]):
        out.append({"kind": "edge", "mask": mask, "phase": ph})
    out.append({"kind": "dataforms", "phase": ph})
    # periodic cylinders with one-decimal (not exactly representable) bounds, droplet centred EXACTLY on the periodic z boundary;
    # the image is rendered by the harness with the minimal-image distance (the library does not wrap z when rendering, F12)
    for L in (11.1, 12.3, 16.8):
        for nz in (20, 37):
            out.append({"kind": "cyl-boundary", "L": L, "nz": nz, "phase": ph})
    out.append({"kind": "shared-args", "phase": ph})
    out.append({"kind": "option-preludes", "phase": ph})
    out.append({"kind": "shared-grid", "phase": ph})
    for k in ("polar", "sph"):
        out.append({"kind": k, "phase": ph})
    for pz in (False, True):
        out.append({"kind": "cyl", "pz": pz, "phase": ph})
    return out


def cases(block):
    k, ph = block["kind"], block["phase"]
    if k == "cart":
        dim, dx, mask, Rf = block["dim"], block["dx"], block["mask"], block["Rf"]
        mdx = max(dx)
        R = Rf * mdx
        widths = [1.0 * mdx, 1.5 * mdx, 2.0 * mdx] if dim < 3 else [1.0 * mdx]
        for w in widths:
            need = 2 * R + 12 * w
            shape = [int(math.ceil(need / d)) + 2 for d in dx]
            g = {"kind": "cart", "shape": shape, "dx": dx, "origin": [0.0] * dim, "periodic": mask}
            classes = [(["interior", "low", "outside"] if p else ["interior", "near-low"]) for p in mask]
            offs = OFFS if dim < 3 else OFFS[:2]
            for cls in itertools.product(*classes):
                if dim == 3 and block["tier"] != "thorough" and cls.count("interior") < 2:
                    continue
                for off in itertools.product(offs, repeat=dim):
                    c = []
                    for a in range(dim):
                        n = shape[a]
                        idx = {"interior": n // 2, "low": 0, "outside": n + n // 2, "near-low": int(math.ceil((R + 3 * w) / dx[a]))}[cls[a]]
                        c.append((idx + off[a] + ph) * dx[a])
                    rules = RULES if (dim < 3 and all(o == offs[0] for o in off[1:])) else RULES[:2]
                    for rule in rules:
                        for it in (INTENS if (rule in (0.5, "extrema") and off[0] == offs[0]) else INTENS[:1] + INTENS[7:8]):
                            yield {"grid": g, "drops": [[c, R, w]], "rule": rule, "intensity": it, "classes": list(cls)}
    elif k == "cart2":
        dx, mask = block["dx"], block["mask"]
        mdx = max(dx)
        for (R1, w1), (R2, w2) in (((3.2 * mdx, 1.0 * mdx), (4.5 * mdx, 1.5 * mdx)), ((4.5 * mdx, 2.0 * mdx), (3.2 * mdx, 1.0 * mdx))):
            gap = 10 * max(w1, w2)
            need = 2 * R1 + 2 * R2 + 2 * gap + 6 * max(w1, w2)
            shape = [int(math.ceil(need / d)) + 2 for d in dx]
            g = {"kind": "cart", "shape": shape, "dx": dx, "origin": [0.0, 0.0], "periodic": mask}
            for off in itertools.product(OFFS[:2], repeat=2):
                for cls0 in (["interior", "low"] if mask[0] else ["interior"]):
                    x0 = (0 if cls0 == "low" else int(math.ceil((R1 + 3 * w1) / dx[0]))) + off[0] + ph
                    c1 = [x0 * dx[0], (int(math.ceil((R1 + 3 * w1) / dx[1])) + off[1]) * dx[1]]
                    for v in ([1.0, 0.0], [0.6, 0.8]):
                        dist = R1 + R2 + gap
                        c2 = [c1[0] + v[0] * dist, c1[1] + v[1] * dist]
                        for rule in RULES[:2]:
                            for it in INTENS[:1] + INTENS[5:6] + INTENS[9:]:
                                yield {"grid": g, "drops": [[c1, R1, w1], [c2, R2, w2]], "rule": rule, "intensity": it, "classes": [cls0]}
    elif k == "edge":
        mask = block["mask"]
        dim = len(mask)
        n = 24
        g = {"kind": "cart", "shape": [n, n + 4][:dim], "dx": [1.0] * dim, "origin": [0.0] * dim, "periodic": mask}
        ax = mask.index(True)
        for e in (0.02, -0.02, 0.005, -0.005, 0.1, -0.1):
            for side in (0, g["shape"][ax]):
                for (R, w) in ((4.5, 1.0), (3.2, 1.5)):
                    c = [g["shape"][a] // 2 + 0.33 + ph for a in range(dim)]
                    c[ax] = side + e
                    for rule in RULES:
                        for it in ("standard", "affine3-auto-fitted"):
                            yield {"grid": g, "drops": [[c, R, w]], "rule": rule, "intensity": it, "classes": ["edge" if a == ax else "interior" for a in range(dim)]}
    elif k == "dataforms":
        g2 = {"kind": "cart", "shape": [20, 22], "dx": [1.0, 1.0], "origin": [0.0, 0.0], "periodic": [True, False]}
        g1 = {"kind": "cart", "shape": [28], "dx": [1.0], "origin": [0.0], "periodic": [False]}
        gp = {"kind": "polar", "n": 24, "R": 24.0}
        gc = {"kind": "cyl", "shape": [12, 32], "R": 12.0, "z": [-4.0, 28.0], "periodic_z": False}
        probes = [(g2, [[[9.3 + ph, 10.2], 4.5, 1.0]], ["interior", "interior"]), (g2, [[[0.4 + ph, 11.3], 3.2, 1.5]], ["low", "interior"]), (g1, [[[13.3 + ph], 4.5, 1.5]], ["interior"]),
                  (gp, [[[0.0, 0.0], 7.2, 1.5]], ["centred"]), (gc, [[[0.0, 0.0, 9.3 + ph], 4.0, 1.0]], ["on-axis"])]
        for g, drops, cls in probes:
            for form in ("float32", "fortran", "readonly", "float32-fortran"):
                for rule in (0.5, "extrema"):
                    for it in INTENS:
                        yield {"grid": g, "drops": drops, "rule": rule, "intensity": it, "classes": cls, "form": form}
    elif k == "numthr":
        for Rf, wf in ((3.2, 1.0), (3.2, 2.0), (4.0, 2.0), (4.5, 1.5), (6.0, 1.0)):
            need = 2 * Rf + 14 * wf
            n = int(math.ceil(need)) + 2
            g = {"kind": "cart", "shape": [n, n + 3], "dx": [1.0, 1.0], "origin": [0.0, 0.0], "periodic": block["mask"]}
            for cls0 in (["interior", "low"] if block["mask"][0] else ["interior"]):
                for off in itertools.product(OFFS[:2], repeat=2):
                    c = [((0 if cls0 == "low" else n // 2) + off[0] + ph), ((n + 3) // 2 + off[1])]
                    for thr in (0.1, 0.25, 0.75, 0.9):
                        if 0.5 + 0.5 * math.tanh(Rf / wf) <= thr + 0.02:
                            continue  # the droplet's core does not exceed the threshold: not detectable by construction
                        for it in ("standard", "affine0-supplied", "affine3-supplied-fitted"):
                            yield {"grid": g, "drops": [[c, Rf, wf]], "rule": thr, "intensity": it, "classes": [cls0, "interior"], "numthr": True}
        for kk, dim in (("polar", 2), ("sph", 3)):
            g = {"kind": kk, "n": 24, "R": 24.0}
            for Rf, wf in ((3.2, 2.0), (4.5, 1.5)):
                for thr in (0.1, 0.25, 0.75, 0.9):
                    yield {"grid": g, "drops": [[[0.0] * dim, Rf, wf]], "rule": thr, "intensity": "standard", "classes": ["centred"], "numthr": True}
    elif k == "cyl-boundary":
        L, nz = block["L"], block["nz"]
        for kk in range(0, 41, 2):
            z0 = round(0.7 * kk - 10, 1)
            z1 = round(z0 + L, 1)
            dz = (z1 - z0) / nz
            g = {"kind": "cyl", "shape": [int(round(8 / dz)), nz], "R": 8.0, "z": [z0, z1], "periodic_z": True}
            for zc in (z0, z1):
                yield {"grid": g, "drops": [[[0.0, 0.0, zc], 3.3 * dz, 1.3 * dz]], "rule": 0.5, "intensity": "standard", "classes": ["on-boundary"], "own_render": True}
            if kk % 8 == 0:
                # ... and centred within one radius of either periodic boundary (the droplet reaches across it), every threshold rule
                for f in (0.35, 0.8):
                    for zc, cl in ((z0 + f * 3.3 * dz, "near-low"), (z1 - f * 3.3 * dz, "near-high")):
                        for rule in (0.5, "extrema", "mean", "otsu"):
                            yield {"grid": g, "drops": [[[0.0, 0.0, zc], 3.3 * dz, 1.3 * dz]], "rule": rule, "intensity": "standard", "classes": [cl], "own_render": True}
    elif k == "nproc-history":
        # several different images on EQUAL grids analysed one after the other with worker processes (controlled pool of mcx/sched.py,
        # default schedule), fresh process per sequence: every ordered pair / triple of four images
        g = {"kind": "cart", "shape": [20, 20], "dx": [1.0, 1.0], "origin": [0.0, 0.0], "periodic": [True, False]}
        probes = [{"grid": g, "drops": [[[6.3 + ph + 2.2 * i, 9.2 + 0.7 * i], 3.2 + 0.4 * i, 1.0 + 0.25 * (i % 2)]], "rule": 0.5, "intensity": "standard", "classes": ["interior", "interior"], "nproc": 2} for i in range(4)]
        for n in (2, 3):
            for idx in itertools.permutations(range(4), n):
                yield {"plain_sequence": [probes[i] for i in idx], "nproc_history": True}
    elif k == "shared-args":
        g = {"kind": "cart", "shape": [20, 20], "dx": [1.0, 1.0], "origin": [0.0, 0.0], "periodic": [True, False]}
        its = ["standard-auto-fitted"] + [f"affine{i}-auto-fitted" for i in range(4)]
        probes = [{"grid": g, "drops": [[[9.3 + ph + 0.4 * i, 10.2], 4.5, 1.0 + 0.25 * (i % 2)]], "rule": "extrema", "intensity": it, "classes": ["interior", "interior"]} for i, it in enumerate(its)]
        for n in (2, 3):
            for idx in itertools.permutations(range(len(probes)), n):
                yield {"shared_args_sequence": [probes[i] for i in idx]}
    elif k == "option-preludes":
        # an EARLIER analysis with documented but rarely used optimiser options (not judged: a deliberately coarse fit may miss the
        # tolerance), then the standard analyses with default options in the same fresh process, judged as always
        g = {"kind": "cart", "shape": [20, 20], "dx": [1.0, 1.0], "origin": [0.0, 0.0], "periodic": [True, False]}
        gc = {"kind": "cyl", "shape": [12, 32], "R": 12.0, "z": [-4.0, 28.0], "periodic_z": False}
        probes = [{"grid": g, "drops": [[[9.3 + ph + 0.4 * i, 10.2], 4.5, 1.0 + 0.25 * (i % 2)]], "rule": 0.5, "intensity": "standard", "classes": ["interior", "interior"]} for i in range(2)]
        probes.append({"grid": gc, "drops": [[[0.0, 0.0, 9.3 + ph], 4.0, 1.0]], "rule": 0.5, "intensity": "standard", "classes": ["on-axis"]})
        probes.append(dict(probes[0], intensity="affine1-auto-fitted", rule="extrema"))
        preludes = [{"least_squares_params": {"ftol": 1e-2, "xtol": 1e-2, "gtol": 1e-2}}, {"least_squares_params": {"max_nfev": 2}}, {"tolerance": 1e-1},
                    {"least_squares_params": {"loss": "soft_l1", "f_scale": 0.01}}, {"least_squares_params": {"method": "dogbox", "ftol": 1e-3}}, {"vmin": 0.1, "vmax": 0.7}]
        for pre in preludes:
            for q in range(len(probes)):
                first = dict(probes[q], unjudged=True, extra_args=pre)
                yield {"plain_sequence": [first] + probes, "prelude": True}
    elif k == "shared-grid":
        # the caller keeps ONE grid object and analyses several images on it, fresh process per sequence
        gc = {"kind": "cyl", "shape": [12, 64], "R": 12.0, "z": [-4.0, 28.0], "periodic_z": False}  # dz = 0.5
        gp = {"kind": "cart", "shape": [20, 16], "dx": [1.0, 1.25], "origin": [0.0, 0.0], "periodic": [True, False]}
        gs = {"kind": "sph", "n": 28, "R": 15.0, "r0": 1.0}
        seqs = [[{"grid": gc, "drops": [[[0.0, 0.0, 6.0 + 4.3 * i + ph], 4.0, 1.0]], "rule": 0.5, "intensity": "standard", "classes": ["on-axis"], "share_grid": True} for i in range(4)],
                [{"grid": dict(gc, periodic_z=True), "drops": [[[0.0, 0.0, 7.0 + 3.1 * i + ph], 3.5, 1.2]], "rule": "extrema", "intensity": "standard", "classes": ["on-axis"], "share_grid": True} for i in range(4)],
                [{"grid": gp, "drops": [[[9.3 + 0.6 * i + ph, 10.2], 4.5, 1.0 + 0.25 * (i % 2)]], "rule": 0.5, "intensity": "standard", "classes": ["interior", "interior"], "share_grid": True} for i in range(4)],
                [{"grid": gs, "drops": [[[0.0, 0.0, 0.0], 1.0 + (3.2 + 0.9 * i) * 0.5, 0.5 + 0.1 * i]], "rule": 0.5, "intensity": "standard", "classes": ["centred"], "share_grid": True} for i in range(4)]]
        for seq in seqs:
            for idx in itertools.permutations(range(4), 4):
                yield {"plain_sequence": [seq[i] for i in idx] * 3}  # twelve analyses on the one grid object
    elif k == "rect":
        # strongly non-square / non-cubic boxes: the period differs from axis to axis
        shape, mask = block["shape"], block["mask"]
        dim = len(shape)
        R, w = (4.5, 1.0) if dim == 2 else (3.2, 1.0)
        g = {"kind": "cart", "shape": shape, "dx": [1.0] * dim, "origin": [0.0] * dim, "periodic": mask}
        classes = [(["interior", "low", "outside"] if p else ["interior"]) for p in mask]
        for cls in itertools.product(*classes):
            for off in itertools.product(OFFS[:2], repeat=dim):
                if dim == 3 and off[1] != off[2]:
                    continue
                c = [({"interior": shape[a] // 2, "low": 0, "outside": shape[a] + shape[a] // 2}[cls[a]] + off[a] + ph) * 1.0 for a in range(dim)]
                for rule in RULES[:2]:
                    yield {"grid": g, "drops": [[c, R, w]], "rule": rule, "intensity": "standard", "classes": list(cls)}
    elif k == "bigsmall":
        # a small droplet close to (but 10 widths away from) a much larger one: centre distance between R1+R2 and 2*R1
        mask = block["mask"]
        g = {"kind": "cart", "shape": [52, 36], "dx": [1.0, 1.0], "origin": [0.0, 0.0], "periodic": mask}
        Rb, Rs, w = 14.0, 3.2, 1.0
        for off in itertools.product(OFFS[:2], repeat=2):
            cb = [17.0 + off[0] + ph, 18.0 + off[1]]
            for v in ([1.0, 0.0], [0.96, 0.28], [0.96, -0.28]):
                dist = Rb + Rs + 10 * w
                cs = [cb[0] + v[0] * dist, cb[1] + v[1] * dist]
                for drops in ([[cb, Rb, w], [cs, Rs, w]], [[cs, Rs, w], [cb, Rb, w]]):
                    for rule in RULES[:2]:
                        yield {"grid": g, "drops": drops, "rule": rule, "intensity": "standard", "classes": ["interior"], "bigsmall": True}
    elif k in ("polar", "sph"):
        dim = 2 if k == "polar" else 3
        for n, Ro, r0 in ((24, 24.0, 0.0), (32, 16.0, 0.0), (24, 26.0, 2.0), (28, 15.0, 1.0)):
            dr = (Ro - r0) / n
            g = {"kind": k, "n": n, "R": Ro}
            if r0:
                g["r0"] = r0  # annular grid: the centred droplet covers the hole
            for Rf in (3.2, 4.5, 6.1 + ph):
                for wf in (1.0, 1.5, 2.0):
                    for rule in RULES:
                        for it in (INTENS if rule == 0.5 else INTENS[:1] + INTENS[9:]):
                            yield {"grid": g, "drops": [[[0.0] * dim, r0 + Rf * dr, wf * dr]], "rule": rule, "intensity": it, "classes": ["centred"]}
    elif k == "cyl":
      for z0 in (-4.0, 2.0, -40.0):  # z ranges containing 0 and excluding it on either side
        g = {"kind": "cyl", "shape": [12, 32], "R": 12.0, "z": [z0, z0 + 32.0], "periodic_z": block["pz"]}
        for Rf in (3.2, 4.5):
            for wf in (1.0, 1.5):
                for iz in (12, 16):
                    for off in OFFS:
                        for rule in RULES[:2]:
                            for it in (INTENS[:1] + INTENS[1:2] + INTENS[9:] if z0 == -4.0 else INTENS[:1]):
                                yield {"grid": g, "drops": [[[0.0, 0.0, z0 + (iz + off + ph) * 1.0], Rf, wf]], "rule": rule, "intensity": it, "classes": ["on-axis"]}


_SHARED = {}


def run_case(case, ctx):
    from pde import ScalarField

    from droplets import DiffuseDroplet, Emulsion, locate_droplets

    if "shared_args_sequence" in case:
        # history: several analyses handed the SAME refine_args dict (as a user loop or a tracker does), fresh process
        from mcx import core

        def one(c, sub):
            run_case(dict(c, use_shared=True), sub)

        _SHARED.clear()
        ctx.count("shared-options-sequences")
        return core.run_sequence_in_fork(one, case["shared_args_sequence"], ctx, tag={"history": "shared-refine-args"})
    if "plain_sequence" in case:
        from mcx import core

        if case.get("nproc_history"):
            from mcx import sched

            ctx.count("worker-process-sequences")

            def one(c, sub):
                sched.install()
                run_case(c, sub)

            return core.run_sequence_in_fork(one, case["plain_sequence"], ctx, tag={"history": "worker-processes"})
        if case.get("prelude"):
            ctx.count("option-prelude-sequences")
            return core.run_sequence_in_fork(run_case, case["plain_sequence"], ctx, tag={"history": "option-prelude"})
        ctx.count("shared-grid-sequences")
        return core.run_sequence_in_fork(run_case, case["plain_sequence"], ctx, tag={"history": "shared-grid-object"})
    g = case["grid"]
    kind = g["kind"]
    dim = geom.dim_of(g)
    grid = geom.make_grid(g, share=bool(case.get("share_grid")))
    drops = case["drops"]
    it = case["intensity"]
    tags = {"grid": kind, "rule": str(case["rule"]), "intensity": it.split("-", 1)[-1] if it != "standard" else it, "n": len(drops)}
    # precondition: inside non-periodic boxes
    if kind == "cart":
        L = geom.cart_lengths(g)
        for c, R, w in drops:
            for a in range(dim):
                if not g["periodic"][a] and (c[a] - R - 3 * w < 0 or c[a] + R + 3 * w > L[a]):
                    ctx.skip("precondition:outside-nonperiodic-box")
                    return
        for i in range(len(drops)):
            for j in range(i + 1, len(drops)):
                gap = geom.point_dist(g, drops[i][0], drops[j][0]) - drops[i][1] - drops[j][1]
                if gap < 10 * max(drops[i][2], drops[j][2]) - 1e-9:
                    ctx.skip("precondition:gap")
                    return
    if case.get("own_render"):
        (c, R, w), = drops
        base = 0.5 + 0.5 * np.tanh((R - geom.sym_dist(g, c)) / w)
        ctx.count("droplet-centred-on-periodic-z-boundary" if case["classes"] == ["on-boundary"] else "droplet-reaching-across-periodic-z-boundary")
    else:
        em0 = Emulsion([DiffuseDroplet(np.array(c, float), R, w) for c, R, w in drops])
        base = em0.get_phasefield(grid).data
        ctx.op()
    a, b = 1.0, 0.0
    if it.startswith("affine"):
        a, b = AFF[int(it[6])]
    data = b + a * base
    rule = case["rule"]
    thr = rule if isinstance(rule, str) else b + a * rule
    args = {}
    if "supplied" in it:
        args.update(vmin=b, vmax=a + b)
    if "auto" in it:
        args.update(vmin=None, vmax=None)
    if "fitted" in it:
        args.update(adjust_values=True)
    if case.get("extra_args"):
        args.update({k: (dict(v) if isinstance(v, dict) else v) for k, v in case["extra_args"].items()})
    if case.get("use_shared"):
        if not _SHARED:
            _SHARED.update(args)
        args = _SHARED  # the very same dict object for every analysis of the sequence
    try:
        field = ScalarField(grid, data)
        form = case.get("form")
        if form:
            ctx.count("images-in-other-data-forms")
            if "float32" in form:
                field = ScalarField(grid, data.astype(np.float32), dtype=np.float32)
            if "fortran" in form and field.data.ndim > 1:
                field.data = np.asfortranarray(field.data)
            if form == "readonly":
                field.data.flags.writeable = False
        image = field.data.tobytes()
        extra = {"num_processes": case["nproc"]} if case.get("nproc") else {}
        em = locate_droplets(field, threshold=thr, refine=True, refine_args=args, **extra)
        ctx.op()
        ctx.check("C05.image-unmodified", field.data.tobytes() == image, None, tags)
        if case.get("unjudged"):
            return
    except Exception as e:  # noqa
        ctx.check("C05.no-raise", False, {"exc": repr(e)[:300], "refine_args": {k: v for k, v in args.items()}}, tags)
        return
    ctx.check("C05.count", len(em) == len(drops), {"returned": [str(d) for d in em], "want": len(drops)}, tags)
    if len(em) != len(drops):
        return
    if any(cl in ("low", "outside") for cl in case["classes"]):
        ctx.count("across-or-outside-periodic-boundary")
    if "edge" in case["classes"]:
        ctx.count("centre-a-fraction-of-a-cell-from-a-periodic-boundary")
    if "fitted" in it:
        ctx.count("fitted-levels")
    if len(drops) == 2:
        ctx.count("two-droplets")
    if g.get("r0"):
        ctx.count("annular-grid")
    if kind == "cyl" and not (g["z"][0] <= 0 <= g["z"][1]):
        ctx.count("cylindrical-z-range-excluding-0")
    if case.get("numthr"):
        ctx.count("numeric-threshold-off-mid-level")
    if case.get("bigsmall"):
        ctx.count("small-droplet-within-one-big-radius-of-big-surface")
    if kind == "cart" and len(set(g["shape"])) > 1 and any(cl in ("low", "outside") for cl in case["classes"]):
        ctx.count("straddling-on-non-square-box")

    def pd(p, q):
        if kind == "cart":
            return geom.point_dist(g, p, q)
        dlt = np.asarray(p, float) - np.asarray(q, float)
        if kind == "cyl" and g["periodic_z"]:
            dlt[2] = geom.min_image(dlt[2], g["z"][1] - g["z"][0], True)
        return float(np.linalg.norm(dlt))

    order = list(range(len(drops)))
    if len(drops) == 2 and pd(em[0].position, drops[0][0]) > pd(em[0].position, drops[1][0]):
        order = [1, 0]
    sc = min(g["dx"]) if kind == "cart" else (geom.radial_spacing(g) if kind in ("polar", "sph") else 1.0)
    for k_, d in enumerate(em):
        c, R, w = drops[order[k_]]
        ctx.check("C05.class", type(d) is DiffuseDroplet, {"type": type(d).__name__}, tags)
        ctx.check("C05.position", pd(d.position, c) <= 1e-4 * sc, {"got": d.position, "want": c, "err_in_cells": pd(d.position, c) / sc}, tags)
        ctx.check("C05.radius", abs(d.radius - R) <= 1e-4 * R, {"got": d.radius, "want": R}, tags)
        ctx.check("C05.width", d.interface_width is not None and abs(d.interface_width - w) <= 1e-4 * w, {"got": d.interface_width, "want": w}, tags)
        if kind == "cart":
            for ax in range(dim):
                if g["periodic"][ax]:
                    ctx.check("C05.inbox", -1e-9 <= d.position[ax] <= geom.cart_lengths(g)[ax] + 1e-9, {"pos": d.position}, tags)


def expected_positive(tier):
    return ["C05.count", "C05.position", "C05.radius", "C05.width", "C05.inbox", "across-or-outside-periodic-boundary", "fitted-levels", "two-droplets",
            "small-droplet-within-one-big-radius-of-big-surface", "straddling-on-non-square-box", "annular-grid", "cylindrical-z-range-excluding-0", "shared-options-sequences", "shared-grid-sequences", "numeric-threshold-off-mid-level", "worker-process-sequences", "droplet-centred-on-periodic-z-boundary", "droplet-reaching-across-periodic-z-boundary", "option-prelude-sequences", "centre-a-fraction-of-a-cell-from-a-periodic-boundary", "images-in-other-data-forms"]
