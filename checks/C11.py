"""C11 - merging droplets conserves volume and centre of mass.

Space (kind I): dim 1-3 x class {Spherical, Diffuse} x ordered pairs of (position on a small lattice, radius in
{0,1e-3,0.5,1,2.5,1e3}, width in {None,0.3,1.2}) with positive total volume x four code paths; plus every
bracketing/order of up to 4 droplets (thorough; 3 in quick).  Enumerated completely.
"""
import itertools
import math

import numpy as np

PID = "C11"
RULE = (
    "complete product of dimension x class x ordered operand pairs over the declared position/radius/width alphabets "
    "(pairs with zero total volume excluded: outside the statement) x code paths {merge, merge(inplace), Class._merge_data on "
    "np.record, numba-jitted wrapper of _make_merge_data()}; plus all full binary bracketings over all orderings of 3 (quick) / 4 "
    "(thorough) droplets; a case is non-trivial when both radii are positive and positions differ; all histories of <= 3 merges inside a 4-member emulsion "
    "(in place on members, through rows of the linked data array, by replacing members; reversal) with volume / centre-of-mass conservation after every step"
)
ASSUMPTIONS = [
    "alphabet values only; the algebraic identity for all positive reals is not decided symbolically",
    "volume / centre compared with rtol 1e-12 (grouping: 1e-11), compiled path within 4 ulp",
]
PI = math.pi
RADII = [0.0, 1e-7, 3e-7, 1e-3, 0.5, 1.0, 2.5, 1e3]  # incl. two unequal tiny radii: total volumes far below machine epsilon
RADII_THOROUGH = RADII + [1e-9, 1e-6, 30.0, 1e6]  # absolute scales far from 1 (absolute tolerances must not matter)
WIDTHS = [None, 0.0, 0.3, 1.2]
POS1 = [-2.0, 0.0, 0.7, 3.5]


def vol(r, d):
    return [2 * r, PI * r * r, 4 * PI / 3 * r**3][d - 1]


def rad(v, d):
    return [v / 2, math.sqrt(v / PI), (3 * v / (4 * PI)) ** (1 / 3)][d - 1]


def positions(d, phase):
    base = [p + 0.11 * phase for p in POS1]
    if d == 1:
        return [[p] for p in base]
    if d == 2:
        return [[base[0], base[2]], [base[1], base[1]], [base[3], base[0]]]
    return [[base[0], base[2], base[1]], [base[1], base[1], base[1]], [base[3], base[0], base[2]]]


_J = {}


def setup(tier, seed):
    import numba as nb

    from droplets import DiffuseDroplet, SphericalDroplet

    for cls in (SphericalDroplet, DiffuseDroplet):
        f = cls._make_merge_data()

        def mkw(f):
            @nb.njit
            def w(a, b, out):
                f(a, b, out)

            return w

        _J[cls.__name__] = mkw(f)
        for d in (1, 2, 3):
            a = cls(np.zeros(d), 1.0)
            b = cls(np.ones(d), 2.0)
            c = cls(np.ones(d), 2.0)
            _J[cls.__name__](a.data, b.data, c.data)


def blocks(tier, seed):
    out = []
    for d in (1, 2, 3):
        for cname in ("SphericalDroplet", "DiffuseDroplet"):
            for ri in range(len(RADII_THOROUGH if tier == "thorough" else RADII)):
                out.append({"kind": "pair", "dim": d, "cls": cname, "phase": seed % 4, "ri": ri, "tier": tier})
    for d in (1, 2, 3):
        n = 4 if (tier == "thorough" or d == 1) else 3
        for cname in ("SphericalDroplet", "DiffuseDroplet"):
            out.append({"kind": "group", "dim": d, "cls": cname, "n": n, "phase": seed % 4})
    # many droplets merged pairwise in a balanced tree whose intermediate results all stay alive (as when coarsening an emulsion level by level)
    for d in (1, 2, 3):
        for cname in ("SphericalDroplet", "DiffuseDroplet"):
            out.append({"kind": "many", "dim": d, "cls": cname, "phase": seed % 4})
    # histories of merges inside an emulsion (member-wise in place, through the rows of the linked data array, by replacing members)
    for d in (1, 2):
        for cname in ("SphericalDroplet", "DiffuseDroplet"):
            for first in range(len(EM_OPS)):
                out.append({"kind": "emulsion-history", "dim": d, "cls": cname, "first": first, "depth": 3, "phase": seed % 4})
    return out


EM_PAIRS = [(0, 1), (2, 3), (1, 2), (3, 0)]
EM_OPS = [("rows", i, j) for i, j in EM_PAIRS] + [("members", i, j) for i, j in EM_PAIRS] + [("replace", i, j) for i, j in EM_PAIRS] + [("reverse",)]


def cases(block):
    d, cname = block["dim"], block["cls"]
    if block["kind"] == "emulsion-history":
        for n in range(1, block["depth"] + 1):
            for rest in itertools.product(range(len(EM_OPS)), repeat=n - 1):
                yield {"kind": "emulsion-history", "dim": d, "cls": cname, "ops": [block["first"]] + list(rest), "phase": block["phase"]}
        return
    if block["kind"] == "many":
        for n in (9, 17, 20, 33, 40, 70, 130):
            for pattern in ("cycle", "equal", "one-big"):
                yield {"kind": "many", "dim": d, "cls": cname, "n": n, "pattern": pattern, "phase": block["phase"]}
        return
    P = positions(d, block["phase"])
    if block["kind"] == "pair":
        widths = WIDTHS if cname == "DiffuseDroplet" else [None]
        radii = RADII_THOROUGH if block.get("tier") == "thorough" else RADII
        operands = [(p, r, w) for p in P for r in radii for w in widths]
        for a in operands:
            if a[1] != radii[block["ri"]]:
                continue
            for b in operands:
                if a[1] + b[1] > 0:
                    yield {"kind": "pair", "dim": d, "cls": cname, "a": a, "b": b}
    else:
        n = block["n"]
        radii = [0.5, 1e-3, 2.5, 1e3][:n]
        for perm_pos in itertools.permutations(range(len(P)), min(n, len(P))):
            pts = [P[i] for i in perm_pos] + [[0.25] * d] * (n - len(perm_pos))
            for r0 in (radii, radii[::-1], [1.0] * n):
                yield {"kind": "group", "dim": d, "cls": cname, "pos": pts, "radii": r0}


def make(cname, p, r, w):
    from droplets import DiffuseDroplet, SphericalDroplet

    if cname == "SphericalDroplet":
        return SphericalDroplet(np.array(p, float), r)
    return DiffuseDroplet(np.array(p, float), r, w)


def arr(drop):
    from numpy.lib.recfunctions import structured_to_unstructured

    return np.array(structured_to_unstructured(drop.data), float)


def same(a, b, ulp=0):
    a, b = arr(a), arr(b)
    if ulp == 0:
        return bool(np.array_equal(a, b, equal_nan=True))
    return bool(np.all((np.abs(a - b) <= ulp * np.spacing(np.maximum(np.abs(a), np.abs(b)))) | (np.isnan(a) & np.isnan(b))))


def trees(items):
    """all full binary bracketings of the sequence items (order kept)"""
    if len(items) == 1:
        yield items[0]
        return
    for i in range(1, len(items)):
        for l in trees(items[:i]):
            for r in trees(items[i:]):
                yield (l, r)


def fold(tree, leaves):
    if isinstance(tree, int):
        return leaves[tree].copy()
    a, b = fold(tree[0], leaves), fold(tree[1], leaves)
    return a.merge(b)


def run_emulsion_history(case, ctx):
    """merges inside an emulsion: after every operation the emulsion's total volume and centre of mass are those of the start and
    every member equals the list model (volume sum, volume-weighted position, mean width; a merged-away member is vanished)"""
    from droplets import DiffuseDroplet, Emulsion, SphericalDroplet

    d, cname = case["dim"], case["cls"]
    cls = {"SphericalDroplet": SphericalDroplet, "DiffuseDroplet": DiffuseDroplet}[cname]
    P = positions(d, case["phase"])
    start = [(list(P[i % len(P)]) if i < len(P) else [0.25 + i] * d, r, w) for i, (r, w) in enumerate(((0.5, 0.3), (1.0, 1.2), (2.5, 0.3), (0.75, 0.6)))]
    em = Emulsion([make(cname, p, r, w) for p, r, w in start])
    model = [[np.array(p, float), vol(r, d), w] for p, r, w in start]  # position, volume, width
    tags = {"history": "emulsion", "cls": cname, "dim": d}
    V0 = sum(m[1] for m in model)
    com0 = sum(m[0] * m[1] for m in model) / V0

    def mmerge(a, b):
        V = a[1] + b[1]
        return [(a[0] * a[1] + b[0] * b[1]) / V, V, (a[2] + b[2]) / 2]

    for k, oi in enumerate(case["ops"]):
        op = EM_OPS[oi]
        if op[0] == "reverse":
            em.reverse()
            model.reverse()
        else:
            _, i, j = op
            if model[i][1] + model[j][1] == 0:
                ctx.skip("both-operands-vanished")
                return
            try:
                if op[0] == "rows":
                    data = em.get_linked_data()  # (fresh array: membership may have changed since the last one)
                    cls._merge_data(data[i], data[j], out=data[i])
                    data[j].fill(0)
                elif op[0] == "members":
                    em[i].merge(em[j], inplace=True)
                    em[j].data.fill(0)
                else:
                    em[i] = em[i].merge(em[j])
                    gone = em[j].copy()
                    gone.data.fill(0)
                    em[j] = gone
                ctx.op()
            except Exception as e:  # noqa
                ctx.check("C11.no-raise", False, {"ops": [EM_OPS[o] for o in case["ops"][: k + 1]], "exc": repr(e)[:300]}, tags)
                return
            model[i] = mmerge(model[i], model[j])
            model[j] = [np.zeros(d), 0.0, 0.0]
        det = {"ops": [EM_OPS[o] for o in case["ops"][: k + 1]], "members": [[list(map(float, x.position)), float(x.radius)] for x in em], "model_volumes": [m[1] for m in model]}
        vols = np.array([float(x.volume) for x in em])
        ctx.check("C11.emulsion-volume", abs(vols.sum() - V0) <= 1e-12 * V0, dict(det, total=float(vols.sum()), want=V0), tags)
        com = sum(np.asarray(x.position, float) * v for x, v in zip(em, vols)) / vols.sum()
        ctx.check("C11.emulsion-com", bool(np.all(np.abs(com - com0) <= 1e-12 * max(1.0, float(np.max(np.abs(com0)))))), dict(det, com=com, want=com0), tags)
        ok = all(abs(v - m[1]) <= 1e-12 * max(m[1], 1e-300) and (m[1] == 0 or np.all(np.abs(np.asarray(x.position) - m[0]) <= 1e-12 * max(1.0, float(np.max(np.abs(m[0])))))) for x, v, m in zip(em, vols, model))
        if cname == "DiffuseDroplet":
            ok = ok and all(m[1] == 0 or abs(float(x.interface_width) - m[2]) <= 1e-12 for x, m in zip(em, model))
        ctx.check("C11.emulsion-members", bool(ok), det, tags)
    ctx.count("emulsion-merge-histories")


def run_many(case, ctx):
    d, cname, n = case["dim"], case["cls"], case["n"]
    radii = {"cycle": [0.5 + 0.25 * (k % 5) for k in range(n)], "equal": [1.0] * n, "one-big": [25.0] + [0.5] * (n - 1)}[case["pattern"]]
    pts = [[1.5 * k + 0.1 * case["phase"]] + [0.5 * (k % 3), -0.25 * (k % 4)][: d - 1] for k in range(n)]
    leaves = [make(cname, pts[i], radii[i], 0.5 if i % 2 else 1.0) for i in range(n)]
    snap = [l.copy() for l in leaves]
    Vs = [vol(r, d) for r in radii]
    scale = max(1.0, 1.5 * n)

    def model(idx):
        V = sum(Vs[i] for i in idx)
        return V, sum(Vs[i] * np.array(pts[i]) for i in idx) / V

    tags = {"n": n, "cls": cname}
    # balanced tree; every node (result object, leaf indices) is kept
    level = [(leaves[i], [i]) for i in range(n)]
    nodes = []
    while len(level) > 1:
        nxt = []
        for k in range(0, len(level) - 1, 2):
            (a, ia), (b, ib) = level[k], level[k + 1]
            m = a.merge(b)
            ctx.op()
            nxt.append((m, ia + ib))
            nodes.append((m, ia + ib, arr(m)))
        if len(level) % 2:
            nxt.append(level[-1])
        level = nxt
    ctx.count("out-of-place-results-kept-alive", len(nodes))
    for m, idx, first in nodes:  # judged only now, after ALL later merges have happened
        V, com = model(idx)
        ctx.check("C11.grouping", abs(m.volume - V) <= 1e-11 * V and bool(np.all(np.abs(m.position - com) <= 1e-11 * scale)), {"node_leaves": idx, "vol": m.volume, "want": V, "pos": m.position, "com": com, "tree": "balanced"}, tags)
        ctx.check("C11.result-independent", bool(np.array_equal(arr(m), first, equal_nan=True)), {"node_leaves": idx, "when_created": first, "now": arr(m)}, tags)
    bufs = [np.asarray(m.data) for m, _, _ in nodes]
    ctx.check("C11.result-independent", not any(np.shares_memory(bufs[i], bufs[j]) for i in range(len(bufs)) for j in range(i + 1, len(bufs))), {"what": "two results share memory"}, tags)
    Vt, com = model(list(range(n)))
    for name, order in (("left-fold", range(n)), ("right-fold", range(n - 1, -1, -1))):
        order = list(order)
        acc = leaves[order[0]]
        for i in order[1:]:
            acc = acc.merge(leaves[i])
            ctx.op()
        ctx.check("C11.grouping", abs(acc.volume - Vt) <= 1e-11 * Vt and bool(np.all(np.abs(acc.position - com) <= 1e-11 * scale)), {"tree": name, "vol": acc.volume, "Vt": Vt}, tags)
    ctx.check("C11.operands-unmodified", all(same(a, b) for a, b in zip(leaves, snap)), {"path": "many"}, tags)


def run_case(case, ctx):
    from droplets import DiffuseDroplet, SphericalDroplet

    if case["kind"] == "emulsion-history":
        return run_emulsion_history(case, ctx)
    d, cname = case["dim"], case["cls"]
    cls = {"SphericalDroplet": SphericalDroplet, "DiffuseDroplet": DiffuseDroplet}[cname]
    if case["kind"] == "many":
        return run_many(case, ctx)
    if case["kind"] == "pair":
        (p1, r1, w1), (p2, r2, w2) = case["a"], case["b"]
        a, b = make(cname, p1, r1, w1), make(cname, p2, r2, w2)
        a0, b0 = a.copy(), b.copy()
        m = a.merge(b)
        ctx.op()
        V1, V2 = vol(r1, d), vol(r2, d)
        Vt = V1 + V2
        scale = max(np.max(np.abs(p1)), np.max(np.abs(p2)), 1.0)
        com = (V1 * np.array(p1) + V2 * np.array(p2)) / Vt
        ctx.check("C11.class", type(m) is cls and m.dim == d, {"type": type(m).__name__})
        ctx.check("C11.volume", abs(m.volume - Vt) <= 1e-12 * Vt, {"got": m.volume, "want": Vt})
        ctx.check("C11.radius", abs(m.radius - rad(Vt, d)) <= 1e-12 * rad(Vt, d), {"got": m.radius, "want": rad(Vt, d)})
        ctx.check("C11.com", bool(np.all(np.abs(m.position - com) <= 1e-12 * scale)), {"got": m.position, "want": com})
        if cname == "DiffuseDroplet":
            if w1 is None or w2 is None:
                ctx.check("C11.width-mean", m.interface_width is None, {"got": m.interface_width, "want": None})
            else:
                ctx.check("C11.width-mean", abs(m.interface_width - (w1 + w2) / 2) <= 1e-15, {"got": m.interface_width})
        ctx.check("C11.operands-unmodified", same(a, a0) and same(b, b0), {"a": arr(a), "a0": arr(a0), "b": arr(b), "b0": arr(b0)})
        # operand order
        m2 = b.merge(a)
        ctx.op()
        ok = abs(m2.radius - m.radius) <= 1e-12 * m.radius and bool(np.all(np.abs(m2.position - m.position) <= 1e-12 * scale))
        if cname == "DiffuseDroplet":
            ok = ok and (m2.interface_width == m.interface_width)
        ctx.check("C11.commutes", ok, {"ab": arr(m), "ba": arr(m2)})
        # in-place path
        a_in = a.copy()
        ret = a_in.merge(b, inplace=True)
        ctx.op()
        ctx.check("C11.paths-agree", ret is a_in and same(a_in, m), {"path": "inplace", "got": arr(a_in), "want": arr(m)})
        ctx.check("C11.operands-unmodified", same(b, b0), {"path": "inplace", "b": arr(b), "b0": arr(b0)})
        # in-place into the second operand (out aliases drop2) through the class-level function
        b_in = b.copy()
        cls._merge_data(a.data, b_in.data, out=b_in.data)
        ctx.op()
        ctx.check("C11.paths-agree", same(b_in, m), {"path": "_merge_data(out=drop2)", "got": arr(b_in), "want": arr(m)})
        # class-level function on fresh record
        c = make(cname, [9.0] * d, 7.0, 5.0)
        cls._merge_data(a.data, b.data, out=c.data)
        ctx.op()
        ctx.check("C11.paths-agree", same(c, m), {"path": "_merge_data(out=c)", "got": arr(c), "want": arr(m)})
        # compiled path
        c2 = make(cname, [9.0] * d, 7.0, 5.0)
        _J[cname](a.data, b.data, c2.data)
        ctx.op()
        ctx.check("C11.paths-agree", same(c2, m, ulp=4), {"path": "numba", "got": arr(c2), "want": arr(m)})
        ctx.check("C11.operands-unmodified", same(a, a0) and same(b, b0), {"path": "after all"})
        # provenance of the receiving droplet must not matter: pickle round trip, deepcopy, emulsion member
        import copy
        import pickle

        from droplets import Emulsion

        for how in ("pickle", "deepcopy", "emulsion-member"):
            if how == "pickle":
                x, y = pickle.loads(pickle.dumps(a)), pickle.loads(pickle.dumps(b))
            elif how == "deepcopy":
                x, y = copy.deepcopy(a), copy.deepcopy(b)
            else:
                em = Emulsion([a, b])
                x, y = em[0], em[1]
            mo = x.merge(y)
            ret = x.merge(y, inplace=True)
            ctx.op(2)
            ctx.check("C11.paths-agree", same(mo, m) and ret is x and same(x, m), {"path": "operands via " + how, "out_of_place": arr(mo), "inplace": arr(x), "want": arr(m)})
        ctx.check("C11.operands-unmodified", same(a, a0) and same(b, b0), {"path": "after provenance paths"})
        # results of separate out-of-place merges are independent objects
        snap = arr(m)
        other = a.merge(a)
        ctx.op()
        ctx.check("C11.result-independent", other.data is not m.data and bool(np.array_equal(arr(m), snap, equal_nan=True)) and not np.shares_memory(np.asarray(other.data), np.asarray(m.data)),
                  {"before": snap, "after": arr(m)})
        if r1 > 0 and r2 > 0 and p1 != p2:
            ctx.count("both-positive-distinct")
        if r1 == 0 or r2 == 0:
            ctx.count("zero-radius-operand")
    else:
        pts, radii = case["pos"], case["radii"]
        n = len(pts)
        leaves = [make(cname, pts[i], radii[i], 0.5 if i % 2 else 1.0) for i in range(n)]
        snap = [l.copy() for l in leaves]
        Vs = [vol(r, d) for r in radii]
        Vt = sum(Vs)
        com = sum(V * np.array(p) for V, p in zip(Vs, pts)) / Vt
        scale = max(1.0, max(np.max(np.abs(p)) for p in pts))
        ntree = 0
        for order in itertools.permutations(range(n)):
            for tree in trees(list(order)):
                m = fold(tree, leaves)
                ctx.op(n - 1)
                ntree += 1
                ctx.check("C11.grouping", abs(m.volume - Vt) <= 1e-11 * Vt and bool(np.all(np.abs(m.position - com) <= 1e-11 * scale)),
                          {"tree": tree, "vol": m.volume, "Vt": Vt, "pos": m.position, "com": com})
        # chained in-place merging
        acc = leaves[0].copy()
        for l in leaves[1:]:
            acc.merge(l, inplace=True)
            ctx.op()
        ctx.check("C11.grouping", abs(acc.volume - Vt) <= 1e-11 * Vt and bool(np.all(np.abs(acc.position - com) <= 1e-11 * scale)), {"tree": "inplace-chain"})
        ctx.check("C11.operands-unmodified", all(same(a, b) for a, b in zip(leaves, snap)), {"path": "grouping"})
        ctx.count("bracketings", ntree)


def expected_positive(tier):
    return ["C11.volume", "C11.com", "C11.width-mean", "C11.commutes", "C11.paths-agree", "C11.grouping", "C11.operands-unmodified", "C11.result-independent",
            "both-positive-distinct", "zero-radius-operand", "C11.emulsion-volume", "C11.emulsion-com", "C11.emulsion-members", "emulsion-merge-histories", "out-of-place-results-kept-alive"]
