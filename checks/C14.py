"""C14 - tracking during a simulation equals analysing the stored fields afterwards (kind H).

State machine initialize -> handle* -> finalize of DropletTracker / LengthScaleTracker; a state is the sequence of fields
fed so far.  All sequences up to length 3 over a field alphabet (per grid family) x times x the settings menu x source
selection x pre-filled time course are enumerated; the recorded data is compared with the offline analysis of a
MemoryStorage holding the same fields, and with what is written to / read back from the files.  Two real solver runs
(Cahn-Hilliard 2-D, diffusion 1-D) serve as conformance pass.
"""
import itertools
import json
import math
import os
import shutil
import tempfile

import numpy as np

from mcx import geom

PID = "C14"
RULE = (
    "all field sequences of length 0..3 over a 6-field alphabet (zeros, one droplet, two droplets, droplet moved, ones, fixed noise) on a "
    "12x12 periodic grid, a 1-D grid and a cylindrical grid x time variants x settings menu (threshold x minimal_radius x refine x refine_args x "
    "perturbation_modes; refinement only for sequences without the noise field) x source {None, index into a FieldCollection, callable} x "
    "{fresh, pre-filled} time course; one 12-frame sequence; every prefix is checked; non-trivial = some frame contains a droplet"
    "; every frame is also compared with its own analysis under a deep copy of the settings; all ordered pairs of five tracker configurations fed alternately in a fresh fork; one length tracker fed frames on four different grids"
)
ASSUMPTIONS = [
    "fields restricted to the alphabet; trackers are driven through initialize/handle/finalize directly, plus two real numpy-backend solver runs",
    "offline reference is the library's own EmulsionTimeCourse.from_storage / get_length_scale (the property is the agreement between the two paths)",
]
DEDUPE = False
FIELDS = ["zeros", "one", "two", "moved", "ones", "noise", "scaled"]  # "scaled" = 3 * two - 1: other intensity levels than the rest
# equal consecutive time stamps are valid input; so is a clock that restarts (one tracker following two consecutive runs)
TIMES = {"unit": [0, 1, 2, 3], "floats": [0.25, 0.75, 2.0, 2.125], "repeated": [0, 1, 1, 1.5], "restart": [0, 1, 0, 0.5]}


def grids():
    return {
        "2d": {"kind": "cart", "shape": [12, 12], "dx": [1.0, 1.0], "origin": [0.0, 0.0], "periodic": [True, True]},
        "1d": {"kind": "cart", "shape": [16], "dx": [0.5], "origin": [-2.0], "periodic": [False]},
        "cyl": {"kind": "cyl", "shape": [6, 16], "R": 6.0, "z": [0.0, 12.0], "periodic_z": False},  # dr = 1, dz = 0.75
    }


def big_grid():
    # more than 4096 cells (beyond the size at which caches / fast paths for large images would engage); only used by the tracker-pair blocks
    return {"kind": "cart", "shape": [64, 66], "dx": [1.0, 1.0], "origin": [0.0, 0.0], "periodic": [True, False]}


def make_field(gk, name):
    from pde import ScalarField

    from droplets import DiffuseDroplet, Emulsion

    g = big_grid() if gk == "2d-big" else grids()[gk]
    grid = geom.make_grid(g, share=True)  # as in a simulation, all frames live on ONE grid object
    if name == "scaled":
        return make_field(gk, "two") * 3.0 - 1.0
    if name == "zeros":
        return ScalarField(grid, 0.0)
    if name == "ones":
        return ScalarField(grid, 1.0)
    if name == "noise":
        idx = np.indices(grid.shape)
        s = sum((k + 2) * i for k, i in enumerate(idx))
        return ScalarField(grid, ((s * 37 + sum(i * i for i in idx) * 11) % 17) / 16.0)
    if gk == "2d-big":
        drops = {"one": [([20.2, 24.1], 12.0)], "two": [([20.2, 24.1], 12.0), ([48.6, 50.9], 4.0)], "moved": [([22.0, 25.6], 11.0), ([48.0, 49.0], 6.5)]}[name]
    elif gk == "2d":
        drops = {"one": [([3.2, 4.1], 2.6)], "two": [([3.2, 4.1], 2.6), ([8.6, 8.9], 1.9)], "moved": [([4.0, 4.6], 2.4)]}[name]
    elif gk == "1d":
        drops = {"one": [([0.3], 1.3)], "two": [([-0.4], 0.9), ([3.6], 1.2)], "moved": [([0.8], 1.1)]}[name]
    else:
        drops = {"one": [([0, 0, 4.2], 2.4)], "two": [([0, 0, 3.1], 1.8), ([0, 0, 8.9], 1.6)], "moved": [([0, 0, 4.9], 2.2)]}[name]
    return Emulsion([DiffuseDroplet(np.array(c, float), R, 0.8) for c, R in drops]).get_phasefield(grid)


def settings_menu(gk, tier):
    out = []
    modes_opts = (0, 2) if gk != "1d" else (0,)
    for thr in ((0.5, 0.3, "auto", "otsu") if (gk == "2d" or tier == "thorough") else (0.3, "otsu")):
        for minr in (0, 1.5):
            for pm in modes_opts:
                out.append({"threshold": thr, "minimal_radius": minr, "refine": False, "refine_args": None, "perturbation_modes": pm})
    for thr in (0.5, "auto"):
        for ra in (None, {"tolerance": 1e-6}, {"vmin": None, "vmax": None, "adjust_values": True}):
            for pm in modes_opts:
                if pm and (ra is None or gk == "cyl") and tier != "thorough":
                    continue
                out.append({"threshold": thr, "minimal_radius": 1.5 if ra is None else 0, "refine": True, "refine_args": ra, "perturbation_modes": pm})
    return out


def blocks(tier, seed):
    out = []
    for gk in grids():
        for si, st in enumerate(settings_menu(gk, tier)):
            if st["refine"]:
                for first in [None] + [f for f in FIELDS if f != "noise"]:  # one block per first field (parallelism)
                    out.append({"part": "droplet", "grid": gk, "settings": st, "tier": tier, "first": first})
            else:
                out.append({"part": "droplet", "grid": gk, "settings": st, "tier": tier})
        for method in ("structure_factor_mean", "structure_factor_maximum", "droplet_detection"):
            out.append({"part": "length", "grid": gk, "method": method})
    out.append({"part": "long"})
    out.append({"part": "solver"})
    # two differently configured trackers fed alternately in one (fresh) process: what one analysis does must not change the other
    for a in range(len(TWO_SETTINGS)):
        out.append({"part": "two-trackers", "a": a})
    for a in range(len(BIG_SETTINGS)):
        out.append({"part": "two-trackers", "a": a, "big": True})
    # a length-scale tracker and a droplet tracker attached to the same simulation state, in either order
    for method in ("structure_factor_mean", "structure_factor_maximum", "droplet_detection"):
        for order in ("length-first", "droplet-first"):
            for thr in (0.5, 0.3, "auto"):
                out.append({"part": "tracker-chain", "method": method, "order": order, "threshold": thr, "tier": tier})
    # one length-scale tracker fed frames that live on different grids of equal shape
    for method in ("structure_factor_mean", "structure_factor_maximum"):
        out.append({"part": "length-grids", "method": method})
    return out


TWO_SETTINGS = [
    {"threshold": 0.5, "minimal_radius": 0, "refine": True, "refine_args": None, "perturbation_modes": 0},
    {"threshold": 0.5, "minimal_radius": 0, "refine": True, "refine_args": {"least_squares_params": {"max_nfev": 3}}, "perturbation_modes": 0},
    {"threshold": "auto", "minimal_radius": 0, "refine": True, "refine_args": {"tolerance": 1e-3}, "perturbation_modes": 0},
    {"threshold": "auto", "minimal_radius": 0, "refine": True, "refine_args": {"vmin": None, "vmax": None, "adjust_values": True}, "perturbation_modes": 0},
    {"threshold": 0.5, "minimal_radius": 1.5, "refine": False, "refine_args": None, "perturbation_modes": 2},
]
BIG_SETTINGS = [
    {"threshold": 0.5, "minimal_radius": 8, "refine": False, "refine_args": None, "perturbation_modes": 0},
    {"threshold": 0.5, "minimal_radius": 0, "refine": False, "refine_args": None, "perturbation_modes": 0},
    {"threshold": "auto", "minimal_radius": 5.5, "refine": False, "refine_args": None, "perturbation_modes": 2},
    {"threshold": 0.5, "minimal_radius": 0, "refine": True, "refine_args": {"tolerance": 1e-4}, "perturbation_modes": 0},
]
GRID_FIELDS = {"tall": ([8, 8], [1.0, 2.0]), "wide": ([8, 8], [2.0, 1.0]), "small": ([8, 8], [1.5, 1.5]), "other": ([6, 10], [1.0, 1.0])}


def grid_field(name):
    from pde import CartesianGrid, ScalarField

    shape, dx = GRID_FIELDS[name]
    grid = CartesianGrid([(0, n * d) for n, d in zip(shape, dx)], shape, periodic=True)
    x, y = np.meshgrid(*[(np.arange(n) + 0.5) / n for n in shape], indexing="ij")
    return ScalarField(grid, np.sin(2 * np.pi * 2 * x) + 0.5 * np.cos(2 * np.pi * y) + 0.1 * ((np.arange(x.size).reshape(x.shape) * 7) % 5))


def sequences(maxlen, alphabet):
    for n in range(maxlen + 1):
        yield from itertools.product(alphabet, repeat=n)


def cases(block):
    p = block["part"]
    if p == "droplet":
        st = block["settings"]
        alphabet = FIELDS if not st["refine"] else [f for f in FIELDS if f != "noise"]
        maxlen = 3 if not st["refine"] else 2
        if st["refine"] and block["tier"] == "thorough":
            maxlen = 3
        for seq in sequences(maxlen, alphabet):
            if "first" in block and (seq[0] if seq else None) != block["first"]:
                continue
            if len(seq) == 3 and block["tier"] != "thorough" and not set(seq) <= {"zeros", "one", "scaled", "noise"}:
                continue  # quick tier: length-3 sequences over a 4-field sub-alphabet (all of them)
            full = len(seq) == maxlen
            if st["refine"] and len(seq) >= 2:
                # fits dominate the cost: time variant and source selection are varied together instead of as a product
                combos = [("unit", "none"), ("floats", "index"), ("repeated", "callable")]
            else:
                combos = [(tv, source) for tv in (TIMES if full or len(seq) == 0 else ["unit"]) for source in (("none", "index", "callable", "live") if len(seq) in (0, 2) else ("none", "live") if (len(seq) >= 2 and tv in ("unit", "restart")) else ("none",))]
            for tv, source in combos:
                    for prefilled in ((False, True) if len(seq) <= 1 else (False,)):
                        yield {"part": p, "grid": block["grid"], "settings": st, "seq": list(seq), "times": tv, "source": source, "prefilled": prefilled}
    elif p == "length":
        for seq in sequences(3, FIELDS):
            for tv in ((("floats" if len(seq) % 2 else "unit"), "repeated") if len(seq) >= 3 else (("floats" if len(seq) % 2 else "unit"),)):
                yield {"part": p, "grid": block["grid"], "method": block["method"], "seq": list(seq), "times": tv, "source": "index" if len(seq) == 2 else "none"}
                if len(seq) >= 2:
                    yield {"part": p, "grid": block["grid"], "method": block["method"], "seq": list(seq), "times": "restart" if len(seq) == 3 else tv, "source": "live"}
    elif p == "two-trackers" and block.get("big"):
        for b in range(len(BIG_SETTINGS)):
            if b != block["a"]:
                for seq in itertools.product(["one", "two", "moved"], repeat=2):
                    yield {"part": p, "a": block["a"], "b": b, "seq": list(seq), "big": True}
                yield {"part": p, "a": block["a"], "b": b, "seq": ["two", "two", "scaled"], "big": True}
    elif p == "two-trackers":
        for b in range(len(TWO_SETTINGS)):
            if b != block["a"]:
                for seq in itertools.product(["one", "two", "moved", "scaled"], repeat=2):
                    yield {"part": p, "a": block["a"], "b": b, "seq": list(seq)}
    elif p == "tracker-chain":
        for n in ((1, 2, 3) if (block["threshold"] == 0.5 or block.get("tier") == "thorough") else (1, 2)):
            for seq in itertools.product(["one", "two", "scaled", "noise"], repeat=n):
                yield {"part": p, "method": block["method"], "order": block["order"], "threshold": block["threshold"], "seq": list(seq)}
    elif p == "length-grids":
        for n in (1, 2, 3, 4):
            for seq in itertools.product(list(GRID_FIELDS), repeat=n):
                if n < 4 or (seq[0] == seq[3] and len(set(seq)) >= 3):
                    yield {"part": p, "method": block["method"], "seq": list(seq)}
    elif p == "long":
        for gk in ("2d", "1d"):
            yield {"part": "long", "grid": gk, "n": 12}
    elif p == "solver":
        yield {"part": "solver", "which": "cahn-hilliard-2d"}
        yield {"part": "solver", "which": "diffusion-1d"}


_TMP = None


def tmpdir():
    global _TMP
    if _TMP is None or not _TMP.endswith(str(os.getpid())):
        base = "/dev/shm" if os.path.isdir("/dev/shm") else tempfile.gettempdir()
        _TMP = os.path.join(base, f"mcx_c14_{os.getpid()}")
        os.makedirs(_TMP, exist_ok=True)
        import atexit

        atexit.register(shutil.rmtree, _TMP, True)
    return _TMP


def ekey(em):
    return [(type(d).__name__, np.asarray(d._data_array, float).tobytes()) for d in em]


def etc_equal(a, b):
    return len(a.times) == len(b.times) and all(float(s) == float(t) for s, t in zip(a.times, b.times)) and len(a.emulsions) == len(b.emulsions) and all(ekey(x) == ekey(y) for x, y in zip(a.emulsions, b.emulsions))


class LiveState:
    """ONE state object whose data is overwritten in place before every step - the way a solver presents its state to the trackers"""

    def __init__(self, fields):
        self.fields = fields
        self.state = fields[0].copy() if fields else None

    def __len__(self):
        return len(self.fields)

    def __getitem__(self, i):
        self.state.data[...] = self.fields[i].data
        return self.state

    def __iter__(self):
        for f in self.fields:
            self.state.data[...] = f.data
            yield self.state


def wrap_source(fields, source):
    """returns (what is fed to the tracker, the `source` argument)"""
    from pde import FieldCollection

    if source == "none":
        return fields, None
    if source == "live":
        return LiveState(fields), None
    other = [f.copy() for f in fields]
    for o in other:
        o.data = 0.37
    if source == "index":
        return [FieldCollection([o, f]) for o, f in zip(other, fields)], 1
    return [FieldCollection([f, o]) for o, f in zip(other, fields)], (lambda fc: fc[0])


def run_case(case, ctx):
    p = case["part"]
    if p == "droplet":
        return run_droplet(case, ctx)
    if p == "length":
        return run_length(case, ctx)
    if p == "long":
        return run_long(case, ctx)
    if p == "two-trackers":
        return run_two(case, ctx)
    if p == "tracker-chain":
        return run_chain(case, ctx)
    if p == "length-grids":
        return run_length_grids(case, ctx)
    return run_solver(case, ctx)


def _framewise(fields, st):
    import copy

    from droplets import locate_droplets

    return [ekey(locate_droplets(f, threshold=st["threshold"], minimal_radius=st["minimal_radius"], modes=st["perturbation_modes"], refine=st["refine"],
                                 refine_args=copy.deepcopy(st["refine_args"]) if st["refine_args"] is not None else None)) for f in fields]


def run_two(case, ctx):
    import copy

    from droplets import DropletTracker
    from mcx import core

    menu = BIG_SETTINGS if case.get("big") else TWO_SETTINGS
    gk = "2d-big" if case.get("big") else "2d"
    sa, sb = menu[case["a"]], menu[case["b"]]
    tags = {"part": "two-trackers", "a": case["a"], "b": case["b"], "big": bool(case.get("big"))}

    def refs():
        fields = [make_field(gk, n) for n in case["seq"]]
        return _framewise(fields, sa)

    def refs_b():
        fields = [make_field(gk, n) for n in case["seq"]]
        return _framewise(fields, sb)

    def both():
        fields = [make_field(gk, n) for n in case["seq"]]
        trs = []
        for st in (sa, sb):
            trs.append(DropletTracker(1, threshold=st["threshold"], minimal_radius=st["minimal_radius"], refine=st["refine"],
                                      refine_args=copy.deepcopy(st["refine_args"]) if st["refine_args"] is not None else None, perturbation_modes=st["perturbation_modes"]))
            trs[-1].initialize(fields[0])
        for i, f in enumerate(fields):
            for tr_ in trs:  # alternately, as two trackers attached to one simulation are
                tr_.handle(f, float(i))
        return [ekey(e) for e in trs[0].data.emulsions], [ekey(e) for e in trs[1].data.emulsions]

    try:
        want = core.in_fork(refs)  # tracker A's settings alone, in a process that never saw B's
        want_b = core.in_fork(refs_b)
        got, got_b = core.in_fork(both)
        ctx.op(4 * len(case["seq"]))
    except Exception as e:  # noqa
        ctx.check("C14.no-raise", False, {"exc": repr(e)[-400:]}, tags)
        return
    ctx.check("C14.equals-framewise", got == want, {"what": "tracker A (handled first) differs when tracker B runs alongside", "frames_differing": [i for i, (x, y) in enumerate(zip(got, want)) if x != y]}, tags)
    ctx.check("C14.equals-framewise", got_b == want_b, {"what": "tracker B (handled second) differs when tracker A runs alongside", "frames_differing": [i for i, (x, y) in enumerate(zip(got_b, want_b)) if x != y]}, tags)
    ctx.count("interleaved-tracker-runs")
    if case.get("big"):
        ctx.count("interleaved-tracker-runs-on-images-with-more-than-4096-cells")


def run_chain(case, ctx):
    """a LengthScaleTracker and a DropletTracker handle the SAME state object (as trackers attached to one simulation do); the droplet
    tracker must record what an offline analysis of copies of the frames gives, and no tracker may modify the state it is shown"""
    from droplets import DropletTracker, LengthScaleTracker
    from mcx import core

    tags = {"part": "tracker-chain", "method": case["method"], "order": case["order"]}
    st = {"threshold": case["threshold"], "minimal_radius": 0, "refine": False, "refine_args": None, "perturbation_modes": 0}

    def refs():
        return _framewise([make_field("2d", n) for n in case["seq"]], st)

    def chain():
        fields = [make_field("2d", n) for n in case["seq"]]
        dt = DropletTracker(1, threshold=st["threshold"], minimal_radius=0)
        lt = LengthScaleTracker(1, method=case["method"])
        trs = [lt, dt] if case["order"] == "length-first" else [dt, lt]
        for t in trs:
            t.initialize(fields[0])
        unmodified = True
        for i, f in enumerate(fields):
            before = f.data.tobytes()
            for t in trs:
                t.handle(f, float(i))
                unmodified = unmodified and f.data.tobytes() == before
        return [ekey(e) for e in dt.data.emulsions], unmodified

    try:
        want = core.in_fork(refs)
        got, unmodified = core.in_fork(chain)
        ctx.op(3 * len(case["seq"]))
    except Exception as e:  # noqa
        ctx.check("C14.no-raise", False, {"exc": repr(e)[-400:]}, tags)
        return
    ctx.check("C14.equals-framewise", got == want, {"what": "droplet tracker next to a length-scale tracker differs from the offline analysis of the frames", "frames_differing": [i for i, (x, y) in enumerate(zip(got, want)) if x != y]}, tags)
    ctx.check("C14.state-unmodified", bool(unmodified), {"what": "a tracker modified the state it was shown"}, tags)
    ctx.count("tracker-chains")


def run_length_grids(case, ctx):
    from droplets import LengthScaleTracker, get_length_scale
    from mcx import core

    method = case["method"]
    tags = {"part": "length-grids", "method": method}

    def one(name):
        try:
            return float(get_length_scale(grid_field(name), method=method))
        except Exception:  # noqa
            return math.nan

    def tracked():
        tr_ = LengthScaleTracker(1, method=method)
        tr_.initialize(grid_field(case["seq"][0]))
        for i, name in enumerate(case["seq"]):
            tr_.handle(grid_field(name), float(i))
        return [float(v) for v in tr_.length_scales]

    want = [core.in_fork(lambda n=name: one(n)) for name in case["seq"]]  # every frame alone in a fresh process
    got = core.in_fork(tracked)
    ctx.op(2 * len(case["seq"]))
    same = len(got) == len(want) and all((math.isnan(a) and math.isnan(b)) or a == b for a, b in zip(got, want))
    ctx.check("C14.ls-value", same, {"recorded": got, "frame_alone": want, "grids": case["seq"]}, tags)
    ctx.count("length-frames-on-different-grids")


def offline(fields, times, st):
    from pde import MemoryStorage

    from droplets import EmulsionTimeCourse

    storage = MemoryStorage()
    if fields:
        storage.start_writing(fields[0])
        for f, t in zip(fields, times):
            storage.append(f, t)
    kw = dict(threshold=st["threshold"], minimal_radius=st["minimal_radius"], modes=st["perturbation_modes"])
    if st["refine_args"] is not None:
        kw["refine_args"] = dict(st["refine_args"])
    return EmulsionTimeCourse.from_storage(storage, refine=st["refine"], progress=False, **kw)


def run_droplet(case, ctx):
    from droplets import DropletTracker, Emulsion, EmulsionTimeCourse, SphericalDroplet

    gk, st, seq = case["grid"], case["settings"], case["seq"]
    times = TIMES[case["times"]][: len(seq)]
    fields = [make_field(gk, n) for n in seq]
    fed, source = wrap_source(fields, case["source"])
    tags = {"grid": gk, "refine": st["refine"], "modes": st["perturbation_modes"], "threshold": str(st["threshold"]), "source": case["source"], "len": len(seq)}
    pre = None
    if case["prefilled"]:
        dim = geom.dim_of(grids()[gk])
        pre = EmulsionTimeCourse([Emulsion([SphericalDroplet(np.full(dim, 1.0) if gk != "cyl" else np.array([0, 0, 1.0]), 0.5)])], times=[-1.5])
    path = os.path.join(tmpdir(), "t.hdf5")
    if os.path.exists(path):
        os.remove(path)
    try:
        tr_ = DropletTracker(1, filename=path, emulsion_timecourse=pre, source=source, threshold=st["threshold"], minimal_radius=st["minimal_radius"], refine=st["refine"],
                             refine_args=None if st["refine_args"] is None else dict(st["refine_args"]), perturbation_modes=st["perturbation_modes"])
        if fed:
            tr_.initialize(fed[0])
        ref_prefixes = []
        for i, (f, t) in enumerate(zip(fed, times)):
            tr_.handle(f, t)
            ctx.op()
            ctx.check("C14.aligned", len(tr_.data.times) == len(tr_.data.emulsions) == i + 1 + (1 if pre else 0), {"i": i}, tags)
        tr_.finalize()
        ctx.op()
    except Exception as e:  # noqa
        ctx.check("C14.no-raise", False, {"exc": repr(e)[:300]}, tags)
        return
    ctx.check("C14.no-raise", True)
    try:
        ref = offline(fields, times, st)
        ctx.op()
    except Exception as e:  # noqa
        ctx.check("C14.offline-no-raise", False, {"exc": repr(e)[:300]}, tags)
        return
    got = tr_.data
    if pre is not None:
        ctx.check("C14.prefilled-kept", got is pre and float(got.times[0]) == -1.5 and len(got.emulsions[0]) == 1, None, tags)
        got = got[1:]
    try:
        lib_eq = bool(got == ref)
    except Exception as e:  # noqa  (the library's == may raise when the two sides hold droplets of different classes/layouts)
        lib_eq = False
    ctx.check("C14.equals-offline", lib_eq and etc_equal(got, ref), {"library_eq": lib_eq, "online": [[float(t), [str(d) for d in e]] for t, e in got.items()][:3], "offline": [[float(t), [str(d) for d in e]] for t, e in ref.items()][:3]}, tags)
    ctx.check("C14.times", [float(t) for t in got.times] == [float(t) for t in times], {"got": list(got.times), "want": times}, tags)
    # "frame by frame": every stored field analysed on its own with an equal but FRESH copy of the settings
    import copy

    from droplets import locate_droplets

    try:
        fw = [locate_droplets(f, threshold=st["threshold"], minimal_radius=st["minimal_radius"], modes=st["perturbation_modes"], refine=st["refine"],
                              refine_args=copy.deepcopy(st["refine_args"]) if st["refine_args"] is not None else None) for f in fields]
        ctx.op(len(fields))
        same = len(fw) == len(got.emulsions) and all(ekey(a) == ekey(b) for a, b in zip(got.emulsions, fw))
        ctx.check("C14.equals-framewise", same, {"online": [[str(d) for d in e] for e in got.emulsions][:3], "framewise": [[str(d) for d in e] for e in fw][:3]}, tags)
    except Exception as e:  # noqa
        ctx.check("C14.equals-framewise", False, {"exc": repr(e)[:300]}, tags)
    if any(len(e) for e in ref):
        ctx.count("frames-with-droplets")
    if any(len(e) == 0 for e in ref) and any(len(e) for e in ref):
        ctx.count("mixture-of-empty-and-non-empty-frames")
    # file written by finalize
    try:
        back = EmulsionTimeCourse.from_file(path, progress=False)
        ctx.op()
        try:
            feq = bool(back == tr_.data)
        except Exception:  # noqa
            feq = False
        ctx.check("C14.file", feq and etc_equal(back, tr_.data), {"n_file": len(back), "n_data": len(tr_.data)}, tags)
    except Exception as e:  # noqa
        mixed = any(len({type(d) for d in e}) > 1 for e in tr_.data)
        ctx.check("C14.file", False, {"exc": repr(e)[:300]}, tags)


def run_length(case, ctx):
    from droplets import LengthScaleTracker, get_length_scale

    gk, method, seq = case["grid"], case["method"], case["seq"]
    times = TIMES[case["times"]][: len(seq)]
    fields = [make_field(gk, n) for n in seq]
    fed, source = wrap_source(fields, case["source"])
    tags = {"grid": gk, "method": method, "len": len(seq)}
    path = os.path.join(tmpdir(), "l.json")
    if os.path.exists(path):
        os.remove(path)
    try:
        tr_ = LengthScaleTracker(1, filename=path, method=method, source=source)
        if fed:
            tr_.initialize(fed[0])
        for f, t in zip(fed, times):
            tr_.handle(f, t)
            ctx.op()
        tr_.finalize()
    except Exception as e:  # noqa
        ctx.check("C14.ls-no-raise", False, {"exc": repr(e)[:300]}, tags)
        return
    ctx.check("C14.ls-no-raise", True)
    want = []
    for f in fields:
        try:
            want.append(float(get_length_scale(f, method=method)))
        except Exception:
            want.append(math.nan)
            ctx.count("length-analysis-raises")
    got = [float(x) for x in tr_.length_scales]
    same = len(got) == len(want) and all((math.isnan(a) and math.isnan(b)) or a == b for a, b in zip(got, want))
    ctx.check("C14.ls-value", same and [float(t) for t in tr_.times] == [float(t) for t in times], {"got": got, "want": want, "times": list(tr_.times)}, tags)
    with open(path) as fp:
        js = json.load(fp)
    okf = [float(t) for t in js["times"]] == [float(t) for t in times] and len(js["length_scales"]) == len(want) and all((math.isnan(a) and math.isnan(b)) or a == b for a, b in zip(map(float, js["length_scales"]), want))
    ctx.check("C14.ls-file", okf, {"file": js}, tags)
    if any(not math.isnan(x) for x in want):
        ctx.count("finite-length-scales")


def run_long(case, ctx):
    from droplets import DropletTracker, EmulsionTimeCourse

    gk, n = case["grid"], case["n"]
    names = ["one", "two", "moved", "zeros"]
    fields = [make_field(gk, names[i % 4]) for i in range(n)]
    times = [0.5 * i for i in range(n)]
    st = {"threshold": 0.5, "minimal_radius": 0, "refine": False, "refine_args": None, "perturbation_modes": 0}
    path = os.path.join(tmpdir(), "long.hdf5")
    tr_ = DropletTracker(1, filename=path)
    tr_.initialize(fields[0])
    for f, t in zip(fields, times):
        tr_.handle(f, t)
        ctx.op()
    tr_.finalize()
    ref = offline(fields, times, st)
    tags = {"grid": gk, "len": n}
    ctx.check("C14.equals-offline", bool(tr_.data == ref) and etc_equal(tr_.data, ref), None, tags)
    back = EmulsionTimeCourse.from_file(path, progress=False)
    ctx.check("C14.file", bool(back == tr_.data) and etc_equal(back, tr_.data), {"times_file": [float(t) for t in back.times]}, tags)
    ctx.count("sequences-with->=11-frames")


def run_solver(case, ctx):
    import pde

    from droplets import DropletTracker, EmulsionTimeCourse, LengthScaleTracker, get_length_scale

    tags = {"part": "solver", "which": case["which"]}
    if case["which"] == "cahn-hilliard-2d":
        grid = pde.UnitGrid([16, 16], periodic=True)
        idx = np.indices(grid.shape)
        field = pde.ScalarField(grid, 0.5 + 0.4 * np.tanh((4.5 - np.hypot(idx[0] - 7.3, idx[1] - 8.1)) / 1.5))
        eq = pde.CahnHilliardPDE()
        t_range, dt, intr = 3.0, 1e-3, 1.0
        st = {"threshold": 0.25, "minimal_radius": 1.0, "refine": False, "refine_args": None, "perturbation_modes": 0}
    else:
        grid = pde.CartesianGrid([(0, 16)], 32, periodic=False)
        x = grid.axes_coords[0]
        field = pde.ScalarField(grid, np.exp(-((x - 6.0) ** 2) / 4.0))
        eq = pde.DiffusionPDE(0.5)
        t_range, dt, intr = 2.0, 1e-3, 0.5
        st = {"threshold": "auto", "minimal_radius": 0, "refine": False, "refine_args": None, "perturbation_modes": 0}
    storage = pde.MemoryStorage()
    dtr = DropletTracker(intr, threshold=st["threshold"], minimal_radius=st["minimal_radius"])
    ltr = LengthScaleTracker(intr, method="structure_factor_mean") if case["which"] == "cahn-hilliard-2d" else LengthScaleTracker(intr, method="droplet_detection")
    eq.solve(field, t_range=t_range, dt=dt, tracker=[dtr, ltr, storage.tracker(intr)], backend="numpy")
    ctx.op(len(storage))
    kw = dict(threshold=st["threshold"], minimal_radius=st["minimal_radius"], modes=0)
    ref = EmulsionTimeCourse.from_storage(storage, refine=False, progress=False, **kw)
    ctx.check("C14.equals-offline", len(ref) >= 3 and bool(dtr.data == ref) and etc_equal(dtr.data, ref), {"online_times": [float(t) for t in dtr.data.times], "offline_times": [float(t) for t in ref.times]}, tags)
    want = []
    for f in storage:
        try:
            want.append(float(get_length_scale(f, method=ltr.method)))
        except Exception:
            want.append(math.nan)
    got = [float(v) for v in ltr.length_scales]
    ctx.check("C14.ls-value", len(got) == len(want) and all((math.isnan(a) and math.isnan(b)) or a == b for a, b in zip(got, want)), {"got": got, "want": want}, tags)
    ctx.count("real-solver-runs")


def expected_positive(tier):
    return ["C14.equals-offline", "C14.equals-framewise", "C14.file", "C14.ls-value", "C14.ls-file", "C14.ls-no-raise", "C14.times", "C14.prefilled-kept", "frames-with-droplets",
            "mixture-of-empty-and-non-empty-frames", "length-analysis-raises", "finite-length-scales", "sequences-with->=11-frames", "real-solver-runs", "interleaved-tracker-runs", "length-frames-on-different-grids", "interleaved-tracker-runs-on-images-with-more-than-4096-cells", "tracker-chains", "C14.state-unmodified"]
