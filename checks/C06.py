"""C06 - tracking neither loses, duplicates nor alters droplets (kind H, see checks/_track.py)."""
import numpy as np

from checks import _track as tr

PID = "C06"
RULE = (
    "all frame histories up to the depth bound over the frame alphabet (all (multi)sets of <= 2-3 droplet types incl. the empty frame) "
    "x all tracker configurations {overlap, distance x max_dist in (inf,1.25,0.5,0,-1)} x {no grid, periodic grid} x time variants; "
    "state = history; non-trivial = history contains >= 2 non-empty frames; every history is run on fresh objects"
    "; grids also with a non-zero lower bound and with mixed periodicity (non-periodic in 1-D); exactly representable (dyadic, 3-4-5) lattices on which contact is decidable; time variants incl. 1e5 + 0.5 k and k*1e-9; time courses continued by append() without a time (library-chosen stamps must stay strictly increasing)"
)
ASSUMPTIONS = [
    "droplet types from the declared lattices in 1-3 dimensions; depth <= 3 frames (4-5 for single-droplet frames)",
    "one-per-frame / gap-free clauses are only demanded when droplets within each frame do not overlap (as stated)",
]
DEDUPE = False


def blocks(tier, seed):
    return tr.make_blocks(tier, seed)


def cases(block):
    for h in tr.histories(block):
        yield {"block": block, "hist": h}


def run_case(case, ctx):
    block, hist = case["block"], case["hist"]
    cfg = block["cfg"]
    tags = {"method": cfg["method"], "grid": cfg["grid"]}
    etc, T, L, dim, times = tr.build(block, hist)
    snap = tr.snapshot(etc)
    if block.get("how") == "ctor+append":
        ctx.count("library-chosen-time-stamps")
        ok = all(b > a for a, b in zip(times, times[1:]))
        ctx.check("C06.times-increasing", ok, {"times": times, "what": "time course continued with append(emulsion) without a time"}, tags)
        if not ok:
            return
    try:
        tracks = tr.run_tracking(block, etc, L, dim)
        ctx.op(len(hist))
    except Exception as e:  # noqa
        ctx.check("C06.no-raise", False, {"exc": repr(e)}, dict(tags, empty_after_nonempty=any(len(a) > 0 and len(b) == 0 for a, b in zip(hist, hist[1:]))))
        return
    ctx.check("C06.no-raise", True)
    ctx.check("C06.input-unmodified", tr.snapshot(etc) == snap, None, tags)
    nonempty = sum(1 for f in hist if f)
    if nonempty >= 2:
        ctx.count("two-nonempty-frames")
    if any(len(f) == 0 for f in hist[1:-1]) and nonempty >= 2:
        ctx.count("gap-frame-between-nonempty")
    # partition: multiset of (time, class, bytes)
    want = sorted((repr(t), c, b) for t, e in snap for c, b in e)
    got = sorted((repr(t), type(d).__name__, d.data.tobytes()) for trk in tracks for t, d in zip(trk.times, trk.droplets))
    ctx.check("C06.partition", want == got, {"n_in": len(want), "n_out": len(got), "tracks": [[list(map(float, trk.times)), [list(map(float, d.position)) + [d.radius] for d in trk.droplets]] for trk in tracks]}, tags)
    ctx.check("C06.aligned", all(len(trk.times) == len(trk.droplets) and len(trk) > 0 for trk in tracks), None, tags)
    # independence from the input objects
    ins = {id(d) for e in etc.emulsions for d in e}
    ctx.check("C06.copies", all(id(d) not in ins for trk in tracks for d in trk.droplets), None, tags)
    if want != got:
        return
    # within-frame overlap precondition
    inframe_overlap = False
    for fr in hist:
        for a in range(len(fr)):
            for b in range(a + 1, len(fr)):
                s = tr.dist(cfg, L, dim, T[fr[a]][0], T[fr[b]][0]) - T[fr[a]][1] - T[fr[b]][1]
                ov = tr.overlapping(s, block)
                if ov is None or ov:  # overlapping or ambiguous contact: precondition of the next two clauses not met
                    inframe_overlap = True
                elif s == 0:
                    ctx.count("frames-with-exact-contact")
    if inframe_overlap:
        ctx.count("frames-with-internal-overlap")
        return
    for trk in tracks:
        idx = [times.index(t) for t in trk.times]
        ctx.check("C06.one-per-frame", len(set(idx)) == len(idx), {"times": trk.times}, tags)
        ctx.check("C06.gap-free", idx == list(range(idx[0], idx[0] + len(idx))), {"times": trk.times, "frame_times": times}, tags)


def expected_positive(tier):
    return ["C06.partition", "C06.one-per-frame", "C06.gap-free", "C06.input-unmodified", "C06.copies", "two-nonempty-frames",
            "gap-frame-between-nonempty", "frames-with-internal-overlap", "frames-with-exact-contact", "library-chosen-time-stamps"]
