"""C04 - refinement never worsens the fit and respects bounds, symmetry and the box.

Space (kind I): image class {clean render of the truth, render + fixed noise pattern, pure noise pattern, constant, affine
rescaled render} x candidate {Spherical, Diffuse(width None / 0 / value), Perturbed 2-D / 3-D / axisymmetric with 1-4 modes}
x candidate state {at truth, displaced by <= 1 cell, wrong radius, amplitude on the bound, centre one period outside} x grid
{Cartesian 2-D 12x12 all masks, 3-D 8^3 two masks, polar, spherical, cylindrical +-periodic} x intensity handling {fixed,
automatic, fixed + fitted, automatic + fitted}.  The least-squares cost at start and end is observed by replacing the
module attribute droplets.image_analysis.optimize from outside (no source change).
"""
import itertools
import types

import numpy as np

from mcx import geom

PID = "C04"
RULE = (
    "complete product image class x candidate class/mode count x candidate state x grid x intensity handling (reduced complete products for "
    "3-D and for noise images, whose fits are slow); fixed noise patterns are deterministic lattices of values, not samples; "
    "non-trivial = the optimiser was entered with a non-zero initial cost"
    " plus the plural entry point on every case, perturbed candidates one period outside, cylindrical z ranges excluding 0, and all ordered pairs of six probe fits handed ONE optimiser-options dict; vanished candidates (radius 0, empty fit region) and perturbed candidates without modes"
)
ASSUMPTIONS = [
    "the objective is the one handed to scipy's least_squares (0.5*sum residual^2 over the fit region chosen by the library)",
    "images and candidates restricted to the catalogue; scipy's optimiser is environment",
]
LEVELS = ["fixed", "auto", "fixed+fit", "auto+fit", "auto-min", "auto-max"]  # the last two: only ONE of the two levels is determined automatically
_REC = {"calls": []}


def setup(tier, seed):
    import scipy.optimize as so

    import droplets.image_analysis as ia

    real = so.least_squares

    def least_squares(fun, x0, *a, **kw):
        x0 = np.array(x0, float)
        c0 = 0.5 * float(np.sum(np.asarray(fun(x0.copy()), float) ** 2))
        res = real(fun, x0, *a, **kw)
        region = None
        try:  # the fitted region chosen by the library (free variable of the residual function)
            free = dict(zip(fun.__code__.co_freevars, [c.cell_contents for c in fun.__closure__]))
            region = np.array(free["mask"], bool, copy=True)
        except Exception:
            pass
        _REC["calls"].append({"cost0": c0, "cost1": float(res.cost), "x0": x0, "x1": np.array(res.x, float), "bounds": kw.get("bounds"), "region": region})
        return res

    ns = types.SimpleNamespace(**{k: getattr(so, k) for k in dir(so) if not k.startswith("_")})
    ns.least_squares = least_squares
    ia.optimize = ns


def grids(tier):
    out = []
    for mask in itertools.product((False, True), repeat=2):
        out.append({"kind": "cart", "shape": [12, 12], "dx": [1.0, 1.0], "origin": [0.0, 0.0], "periodic": list(mask)})
    out.append({"kind": "cart", "shape": [14, 11], "dx": [0.8, 1.0], "origin": [-3.0, 2.0], "periodic": [True, False]})
    for mask in (itertools.product((False, True), repeat=3) if tier == "thorough" else ((False, False, False), (True, False, True))):
        out.append({"kind": "cart", "shape": [8, 8, 8], "dx": [1.0, 1.0, 1.0], "origin": [0.0, 0.0, 0.0], "periodic": list(mask)})
    if tier == "thorough":
        for mask in itertools.product((False, True), repeat=2):
            out.append({"kind": "cart", "shape": [16, 10], "dx": [0.5, 1.25], "origin": [2.0, -7.0], "periodic": list(mask)})
        out.append({"kind": "cart", "shape": [7, 9, 8], "dx": [1.0, 0.8, 1.25], "origin": [-1.0, 0.0, 3.0], "periodic": [False, True, False]})
        out.append({"kind": "cart", "shape": [24], "dx": [0.5], "origin": [-3.0], "periodic": [False]})
    out.append({"kind": "cart", "shape": [24], "dx": [0.5], "origin": [-3.0], "periodic": [True]})  # one dimension: the field's data buffer is contiguous
    out.append({"kind": "polar", "n": 12, "R": 12.0})
    out.append({"kind": "sph", "n": 12, "R": 12.0})
    out.append({"kind": "sph", "n": 40, "R": 10.0, "fine": True})
    out.append({"kind": "polar", "n": 40, "R": 10.0, "fine": True})
    for pz in (False, True):
        out.append({"kind": "cyl", "shape": [8, 16], "R": 8.0, "z": [0.0, 16.0], "periodic_z": pz})
        out.append({"kind": "cyl", "shape": [8, 16], "R": 8.0, "z": [3.0, 19.0], "periodic_z": pz})  # z range excluding 0
    out.append({"kind": "cyl", "shape": [8, 16], "R": 8.0, "z": [-21.5, -5.5], "periodic_z": True})
    return out


def blocks(tier, seed):
    out = []
    for gi, g in enumerate(grids(tier)):
        for img in (("clean", "noisy", "noise", "constant", "affine") if not g.get("fine") else ()):
            for lv in LEVELS:
                # thorough: every noise lattice variant, not only the one selected by the seed
                for variant in (range(3) if (tier == "thorough" and img in ("noisy", "noise")) else [seed % 3]):
                    out.append({"grid": g, "image": img, "levels": lv, "variant": variant, "tier": tier})
        # image that the model cannot represent exactly (superposition of two profiles) x lattice of (radius, width) candidates:
        # candidates close to the optimum of the plain squared deviation are the ones a wrong objective would worsen
        for lv in ("fixed", "auto+fit"):
            out.append({"grid": g, "image": "mix", "levels": lv, "variant": seed % 3, "tier": tier})
    out.append({"pairs": True, "variant": seed % 3, "tier": tier})
    out.append({"plural_forms": True, "variant": seed % 3, "tier": tier})
    out.append({"solver_methods": True})
    return out


def probes(variant):
    """cases whose fits need different bounds / parameter counts: used for the shared-options history block"""
    g2 = {"kind": "cart", "shape": [12, 12], "dx": [1.0, 1.0], "origin": [0.0, 0.0], "periodic": [True, False]}
    gc = {"kind": "cyl", "shape": [8, 16], "R": 8.0, "z": [3.0, 19.0], "periodic_z": True}
    gp = {"kind": "polar", "n": 12, "R": 12.0}
    out = []
    for g, img, lv, cand in ((g2, "clean", "auto+fit", ["DiffuseDroplet", 0, 1.0, "displaced"]), (g2, "affine", "auto+fit", ["DiffuseDroplet", 0, 1.0, "wrong-radius"]),
                             (g2, "affine", "fixed", ["PerturbedDroplet2D", 2, 1.0, "displaced"]), (g2, "clean", "auto", ["SphericalDroplet", 0, None, "displaced"]),
                             (gc, "affine", "auto+fit", ["DiffuseDroplet", 0, 1.0, "displaced"]), (gp, "clean", "fixed+fit", ["DiffuseDroplet", 0, None, "displaced"])):
        out.append({"grid": g, "image": img, "levels": lv, "cand": cand, "variant": variant})
    return out


def truth_for(g):
    k = g["kind"]
    if k == "cart":
        dim = len(g["shape"])
        c = [o + (n * 0.45 + 0.2) * d for o, n, d in zip(g["origin"], g["shape"], g["dx"])]
        return c, (3.1 if dim <= 2 else 2.3), 1.0
    if k in ("polar", "sph"):
        if g.get("fine"):
            return [0.0] * (2 if k == "polar" else 3), 4.6, 1.0
        return [0.0] * (2 if k == "polar" else 3), 5.3, 1.2
    return [0.0, 0.0, g["z"][0] + 7.3], 3.2, 1.0


def candidates(g, tier, img):
    """candidate specs: (class, modes, width, state)"""
    k = g["kind"]
    dim = geom.dim_of(g)
    pert = {("cart", 2): "PerturbedDroplet2D", ("cart", 3): "PerturbedDroplet3D", ("cyl", 3): "PerturbedDroplet3DAxisSym", ("polar", 2): "PerturbedDroplet2D", ("sph", 3): "PerturbedDroplet3D"}.get((k, dim))
    states = ["truth", "displaced", "wrong-radius"]
    if k == "cart" and any(g["periodic"]):
        states.append("outside")
    slow = img in ("noisy", "noise") or dim == 3
    out = []
    for st in states:
        out.append(("SphericalDroplet", 0, None, st))
        for w in ((None, 0.0, 1.0) if not slow else (1.0,)):
            out.append(("DiffuseDroplet", 0, w, st))
    if not slow:
        # candidates that cover no support point (vanished droplets): nothing to fit, every clause still applies
        out.append(("SphericalDroplet", 0, None, "vanished"))
        out.append(("DiffuseDroplet", 0, 1.0, "vanished"))
        # ... and candidates about as large as the box: the fitted region is the whole grid
        out.append(("DiffuseDroplet", 0, 1.0, "box-filling"))
        out.append(("SphericalDroplet", 0, None, "box-filling"))
        if k == "cart" and any(g["periodic"]):
            out.append(("DiffuseDroplet", 0, 1.0, "vanished-outside"))  # ... lying in a periodic image of the box
        if pert is not None:
            # perturbed classes without any mode are valid candidates, too
            out.append((pert, 0, 1.0, "truth"))
            out.append((pert, 0, 1.0, "displaced"))
    modes = (1, 2, 4) if not slow else (2,)
    if pert is None:
        modes = ()  # no perturbed class in one dimension
    if dim == 3 and k != "cyl":
        modes = (3,) if tier != "thorough" else (1, 3)
    for m in modes:
        sts = ["truth", "displaced", "amp-on-bound"] if not slow else ["displaced"]
        if k == "cart" and any(g["periodic"]) and not slow:
            sts = sts + ["outside-perturbed"]  # direction-dependent shape whose centre lies one period outside the box
        for st in sts:
            out.append((pert, m, 1.0, st))
    return out


FORMS = ["list", "tuple", "emulsion", "generator", "iter", "map", "array-of-objects", "reversed-iterator"]


def cases(block):
    if block.get("solver_methods"):
        # images whose unconstrained optimum lies OUTSIDE the parameter bounds (amplitude 1.25, negative width impossible), every
        # scipy solver the caller may select: a call may refuse (raise), but a returned droplet respects the bounds
        for method in ("trf", "dogbox", "lm"):
            for amp in (1.25, -1.3, 0.6):
                for start in (0.9, -0.9, 0.0):
                    for mode in (0, 1, 3):
                        yield {"solver_method": method, "amp": amp, "start": start, "mode": mode}
        return
    if block.get("plural_forms"):
        for form in FORMS:
            for nproc in (1, 2, 3, "auto"):
                for n in (0, 1, 3):
                    for lv in ("fixed", "auto+fit"):
                        yield {"plural_forms": form, "nproc": nproc, "n": n, "levels": lv, "variant": block["variant"]}
        return
    if block.get("pairs"):
        P = probes(block["variant"])
        for opts in ({"max_nfev": 400}, {"max_nfev": 400, "x_scale": 1.0}):
            for tol in (None, 1e-9):
                for i, j in itertools.product(range(len(P)), repeat=2):
                    yield {"pair": [P[i], P[j]], "shared": opts, "tolerance": tol}
        return
    g = block["grid"]
    if block["image"] == "mix":
        if geom.dim_of(g) == 3 and g["kind"] == "cart" and block["tier"] != "thorough":
            return
        n = 9 if g.get("fine") else 7
        for i in range(n):
            for j in range(n):
                yield {"grid": g, "image": "mix", "levels": block["levels"], "cand": ["DiffuseDroplet", 0, None, f"scan:{i}:{j}"], "variant": block["variant"]}
        return
    for cand in candidates(g, block["tier"], block["image"]):
        yield {"grid": g, "image": block["image"], "levels": block["levels"], "cand": list(cand), "variant": block["variant"]}


def noise_pattern(shape, variant):
    idx = np.indices(shape)
    s = sum((i + 1) * (k + 2 + variant) for k, i in enumerate(idx))
    return ((s * 37 + sum(i * i for i in idx) * 11) % 17) / 16.0  # deterministic lattice of values in [0, 1]


def run_pair(case, ctx):
    """two refinements handed the SAME options dict one after the other: the second must equal a run with a fresh dict"""
    from droplets.image_analysis import refine_droplet

    A, B = case["pair"]
    tags = {"history": "shared-options"}
    extra = {} if case["tolerance"] is None else {"tolerance": case["tolerance"]}
    fB, cB, argsB = prepare(B)[:3]
    try:
        ref = refine_droplet(fB, cB.copy(), least_squares_params=dict(case["shared"]), **argsB, **extra)
        shared = dict(case["shared"])
        fA, cA, argsA = prepare(A)[:3]
        refine_droplet(fA, cA.copy(), least_squares_params=shared, **argsA, **extra)
        got = refine_droplet(fB, cB.copy(), least_squares_params=shared, **argsB, **extra)
        ctx.op(3)
    except Exception as e:  # noqa
        ctx.check("C04.no-raise", False, {"exc": repr(e)[:300]}, tags)
        return
    ctx.check("C04.options-not-carried-over", type(got) is type(ref) and got.data.tobytes() == ref.data.tobytes(),
              {"fresh_options": str(ref), "options_used_before": str(got), "options_after": {k: repr(v)[:80] for k, v in shared.items()}}, tags)


def run_solver_method(case, ctx):
    from pde import UnitGrid

    from droplets import droplets as dm
    from droplets.image_analysis import refine_droplet

    grid = UnitGrid([24, 24])
    amps = [0.0] * 4
    amps[case["mode"]] = case["amp"]
    truth = dm.PerturbedDroplet2D(np.array([12.3, 11.8]), 5.0, 1.0, np.array(amps))
    field = truth.get_phase_field(grid)
    a0 = [0.0] * 4
    a0[case["mode"]] = case["start"]
    cand = dm.PerturbedDroplet2D(np.array([12.0, 12.0]), 5.0, 1.0, np.array(a0))
    tags = {"solver": case["solver_method"], "truth_outside_bounds": abs(case["amp"]) > 1}
    try:
        out = refine_droplet(field, cand, least_squares_params={"method": case["solver_method"]})
        ctx.op()
    except Exception:  # noqa  (e.g. scipy: method 'lm' does not support bounds) - refusing is allowed, returning an out-of-bounds droplet is not
        ctx.count("solver-refused")
        return
    ctx.count("solver-returned")
    ctx.check("C04.bounds", out.radius >= 0 and (out.interface_width is None or out.interface_width >= 0) and bool(np.all(np.abs(out.amplitudes) <= 1 + 1e-12)),
              {"radius": out.radius, "width": out.interface_width, "amplitudes": out.amplitudes}, tags)
    ctx.check("C04.class", type(out) is dm.PerturbedDroplet2D, {"type": type(out).__name__}, tags)


def run_plural_forms(case, ctx):
    """refine_droplets takes an ITERABLE of candidates: whatever its container form and the number of processes, result k is the
    refinement of candidate k (same count, same order) and every result obeys the per-candidate clauses"""
    import droplets
    from droplets.image_analysis import refine_droplet, refine_droplets
    from mcx import sched

    g2 = {"kind": "cart", "shape": [12, 12], "dx": [1.0, 1.0], "origin": [0.0, 0.0], "periodic": [True, False]}
    base = {"grid": g2, "image": "affine" if case["levels"] != "fixed" else "clean", "levels": case["levels"], "variant": case["variant"]}
    specs = [["DiffuseDroplet", 0, 1.0, "displaced"], ["DiffuseDroplet", 0, 1.0, "wrong-radius"], ["DiffuseDroplet", 0, 1.0, "truth"]][: case["n"]]
    prepared = [prepare(dict(base, cand=sp)) for sp in specs] or [prepare(dict(base, cand=["DiffuseDroplet", 0, 1.0, "truth"]))]
    field, args = prepared[0][0], prepared[0][2]
    cands = [p[1] for p in prepared][: case["n"]]
    tags = {"form": case["plural_forms"], "nproc": str(case["nproc"]), "n": case["n"]}
    try:
        singles = [refine_droplet(field, c.copy(), **args) for c in cands]
        fresh = [c.copy() for c in cands]
        form = case["plural_forms"]
        if form == "tuple":
            arg = tuple(fresh)
        elif form == "emulsion":
            arg = droplets.Emulsion(fresh)
        elif form == "generator":
            arg = (c for c in fresh)
        elif form == "iter":
            arg = iter(fresh)
        elif form == "map":
            arg = map(lambda c: c, fresh)
        elif form == "array-of-objects":
            arg = np.empty(len(fresh), dtype=object)
            arg[:] = fresh
        elif form == "reversed-iterator":
            arg = reversed(fresh[::-1])
        else:
            arg = fresh
        if case["nproc"] != 1:
            sched.install()
        got = refine_droplets(field, arg, num_processes=case["nproc"], **args)
        ctx.op(2 * len(cands))
    except Exception as e:  # noqa
        ctx.check("C04.plural-agrees", False, {"exc": repr(e)[:300]}, tags)
        return
    ctx.count("plural-calls-with-container-forms")
    ok = len(got) == len(singles) and all(type(a) is type(b) and a.data.tobytes() == b.data.tobytes() for a, b in zip(got, singles))
    ctx.check("C04.plural-agrees", ok, {"one_by_one": [str(d) for d in singles], "refine_droplets": [str(d) for d in got]}, tags)


def prepare(case):
    """field, candidate, refine arguments (+ bookkeeping) for one catalogue case"""
    from pde import ScalarField

    from droplets import droplets as dm

    g = case["grid"]
    grid = geom.make_grid(g)
    kind = g["kind"]
    dim = grid.dim
    c, R, w = truth_for(g)
    truth = dm.DiffuseDroplet(np.array(c, float), R, w)
    img = case["image"]
    clsname, modes, cw, state = case["cand"]
    tags = {"grid": kind, "dim": dim, "image": img, "levels": case["levels"], "cls": clsname, "state": state.split(":")[0]}
    base = truth.get_phase_field(grid).data
    a, b = 1.0, 0.0
    if img == "clean":
        data = base.copy()
    elif img == "noisy":
        data = base + 0.2 * (noise_pattern(grid.shape, case["variant"]) - 0.5)
    elif img == "noise":
        data = noise_pattern(grid.shape, case["variant"])
    elif img == "constant":
        data = np.full(grid.shape, 0.3)
    elif img == "mix":
        data = 0.5 * dm.DiffuseDroplet(np.array(c, float), 0.65 * R, w).get_phase_field(grid).data + 0.5 * dm.DiffuseDroplet(np.array(c, float), 1.3 * R, w).get_phase_field(grid).data
    else:
        a, b = 2.0, -1.5
        data = b + a * base
    # candidate
    cc = list(c)
    cR = R
    if state == "displaced":
        cc = [x + (0.7 if i == dim - 1 or kind == "cart" else 0.0) * (1 if i % 2 == 0 else -1) for i, x in enumerate(cc)]
        if kind in ("polar", "sph"):
            cc = list(c)
            cR = R + 0.8
        if kind == "cyl":
            cc = [0.0, 0.0, c[2] + 0.7]
    elif state == "wrong-radius":
        cR = 0.7 * R
    elif state == "box-filling":
        if kind == "cart":
            cR = 0.55 * max(geom.cart_lengths(g))
        elif kind == "cyl":
            cR = 0.6 * max(g["R"], g["z"][1] - g["z"][0])
        else:
            cR = 0.97 * g["R"]
    elif state == "vanished":
        cR = 0.0
    elif state == "vanished-outside":
        cR = 0.0
        L = geom.cart_lengths(g)
        cc = [x + (L[i] if g["periodic"][i] else 0.0) for i, x in enumerate(cc)]
    elif state.startswith("scan"):
        _, i, j = state.split(":")
        if g.get("fine"):
            cR = 3.5 + 0.25 * int(i) + 0.01 * case["variant"]
            cw = 0.6 + 0.3 * int(j)
        else:
            cR = R * (0.55 + 0.15 * int(i) + 0.01 * case["variant"])
            cw = w * (0.6 + 0.35 * int(j))
    elif state in ("outside", "outside-perturbed"):
        L = geom.cart_lengths(g)
        cc = [x + (L[i] if g["periodic"][i] else 0.0) for i, x in enumerate(cc)]
    cls = getattr(dm, clsname)
    if clsname == "SphericalDroplet":
        cand = cls(np.array(cc, float), cR)
    elif clsname == "DiffuseDroplet":
        cand = cls(np.array(cc, float), cR, cw)
    else:
        amps = np.zeros(modes)
        if state == "amp-on-bound":
            amps[-1] = 1.0
            amps[0] = -1.0 if modes > 1 else 1.0
        elif state == "displaced" and modes:
            amps[0] = 0.05
        elif state == "outside-perturbed":
            amps[0] = 0.25
            amps[-1] = -0.15 if modes > 1 else 0.25
        cand = cls(np.array(cc, float), cR, cw, amps)
    cand0 = cand.copy()
    lv = case["levels"]
    args = {}
    if lv.startswith("fixed"):
        args.update(vmin=b, vmax=a + b)
    elif lv == "auto-min":
        args.update(vmin=None, vmax=a + b)
    elif lv == "auto-max":
        args.update(vmin=b, vmax=None)
    else:
        args.update(vmin=None, vmax=None)
    if lv.endswith("+fit"):
        args["adjust_values"] = True
    field = ScalarField(grid, data)
    return field, cand, args, dict(locals())


def run_case(case, ctx):
    from pde import ScalarField

    from droplets import droplets as dm
    from droplets.image_analysis import refine_droplet, refine_droplets

    if "pair" in case:
        return run_pair(case, ctx)
    if "plural_forms" in case:
        return run_plural_forms(case, ctx)
    if "solver_method" in case:
        return run_solver_method(case, ctx)
    field, cand, args, loc = prepare(case)
    g, grid, kind, dim, c, R, w, img, clsname, modes, cw, state, tags, a, b, data, cls, cand0, lv = (loc[k] for k in (
        "g", "grid", "kind", "dim", "c", "R", "w", "img", "clsname", "modes", "cw", "state", "tags", "a", "b", "data", "cls", "cand0", "lv"))
    before = field.data.tobytes()
    _REC["calls"].clear()
    try:
        out = refine_droplet(field, cand, **args)
        ctx.op()
    except Exception as e:  # noqa
        degenerate = img == "constant" and lv.startswith("auto")
        ctx.check("C04.no-raise", False, {"exc": repr(e)[:300]}, dict(tags, degenerate_constant_region=degenerate))
        return
    ctx.check("C04.no-raise", True)
    ctx.check("C04.image-unmodified", field.data.tobytes() == before, None, tags)
    calls = list(_REC["calls"])
    # the plural entry point (used by locate_droplets) must hand every option through unchanged
    try:
        plural = refine_droplets(field, [cand0.copy()], **args)
        ctx.op()
        same = len(plural) == 1 and type(plural[0]) is type(out) and plural[0].data.tobytes() == out.data.tobytes()
        ctx.check("C04.plural-agrees", same, {"refine_droplet": str(out), "refine_droplets": [str(d) for d in plural], "args": {k: repr(v) for k, v in args.items()}}, tags)
    except Exception as e:  # noqa
        ctx.check("C04.plural-agrees", False, {"exc": repr(e)[:300]}, tags)
    ctx.check("C04.optimiser-observed", len(calls) == 1, {"calls": len(calls)}, tags)
    if state.startswith("vanished"):
        ctx.count("candidate-covering-no-cell")
    if calls and calls[0]["region"] is not None and calls[0]["region"].all():
        ctx.count("fit-region-is-the-whole-grid")
    if clsname.startswith("Perturbed") and modes == 0:
        ctx.count("perturbed-candidate-without-modes")
    if calls:
        c0, c1 = calls[0]["cost0"], calls[0]["cost1"]
        ctx.check("C04.cost", c1 <= c0 * (1 + 1e-9) + 1e-12, {"cost_start": c0, "cost_end": c1}, tags)
        # the same comparison with the plain squared deviation computed by the harness over the fitted region
        region = calls[0]["region"]
        if region is not None and region.shape == tuple(grid.shape) and not region.any():
            ctx.count("empty-fit-region")  # nothing to compare: both deviations are empty sums
        elif region is not None and region.shape == tuple(grid.shape):
            start = cand0 if isinstance(cand0, dm.DiffuseDroplet) else dm.DiffuseDroplet.from_droplet(cand0)
            if start.interface_width is None:
                start.interface_width = float(grid.typical_discretization)
            dm_ = data[region]
            if "adjust_values" in args:
                (l0, r0), (l1, r1) = calls[0]["x0"][-2:], calls[0]["x1"][-2:]
                if len(calls[0]["x0"]) != len(np.asarray(start._data_array)[[i for i in range(len(start._data_array)) if i not in cons_idx(grid)]]) + 2:
                    l0 = l1 = (b if lv.startswith("fixed") else float(dm_.min()))
                    r0 = r1 = ((a) if lv.startswith("fixed") else float(dm_.max() - dm_.min()))
            elif lv in ("auto-min", "auto-max"):
                lo_ = float(dm_.min()) if lv == "auto-min" else b
                hi_ = float(dm_.max()) if lv == "auto-max" else a + b
                l0 = l1 = lo_
                r0 = r1 = hi_ - lo_
            else:
                l0 = l1 = b if lv.startswith("fixed") else float(dm_.min())
                r0 = r1 = a if lv.startswith("fixed") else float(dm_.max() - dm_.min())
            dev0 = float(np.sum((l0 + r0 * start._get_phase_field(grid)[region] - dm_) ** 2))
            dev1 = float(np.sum((l1 + r1 * out._get_phase_field(grid)[region] - dm_) ** 2))
            tdev = tags
            if kind == "cyl" and g["periodic_z"]:
                # The optimiser works on unwrapped coordinates and the result is wrapped into the box afterwards.  On a periodic
                # cylindrical grid py-pde 0.58 renders without wrapping z (recorded dependency finding), so a result that was moved
                # by whole periods, or that reaches across the z boundary, is a different picture from the one that was optimised.
                free_idx = [i for i in range(len(start._data_array)) if i not in cons_idx(grid)]
                z_opt = float(calls[0]["x1"][free_idx.index(2)]) if 2 in free_idx else float(out.position[2])
                moved = abs(z_opt - float(out.position[2])) > 1e-9
                reach = out.radius + 3 * (out.interface_width or 0.0)
                crosses = out.position[2] - reach < g["z"][0] or out.position[2] + reach > g["z"][1]
                tdev = dict(tags, cyl_periodic_result_wrapped_or_across_boundary=bool(moved or crosses))
            ctx.check("C04.deviation", dev1 <= dev0 * (1 + 1e-9) + 1e-12, {"deviation_start": dev0, "deviation_end": dev1, "returned": str(out)}, tdev)
        else:
            ctx.count("fit-region-not-observed")
        if c0 > 1e-12:
            ctx.count("non-zero-initial-cost")
        if c1 < c0 * (1 - 1e-6):
            ctx.count("fit-improved")
    # class
    want = cls if issubclass(cls, dm.DiffuseDroplet) else dm.DiffuseDroplet
    ctx.check("C04.class", type(out) is want and out.dim == dim, {"got": type(out).__name__, "want": want.__name__}, tags)
    vals = np.asarray(out._data_array, float)
    ctx.check("C04.finite", bool(np.all(np.isfinite(vals))), {"data": vals}, tags)
    ok = out.radius >= 0 and (out.interface_width is None or out.interface_width >= 0)
    if hasattr(out, "amplitudes"):
        ok = ok and bool(np.all(np.abs(out.amplitudes) <= 1.0)) and len(out.amplitudes) == modes
    ctx.check("C04.bounds", bool(ok), {"radius": out.radius, "width": out.interface_width, "amplitudes": getattr(out, "amplitudes", None)}, tags)
    # symmetry-constrained coordinates
    cons = list(grid.coordinate_constraints)
    if cons:
        ctx.check("C04.constrained", all(float(out.position[i]).hex() == float(cand0.position[i]).hex() for i in cons), {"got": out.position, "candidate": cand0.position, "constrained": cons}, tags)
        ctx.count("constrained-coordinates")
    # wrapped into the box along periodic axes
    if kind == "cart":
        L = geom.cart_lengths(g)
        for ax in range(dim):
            if g["periodic"][ax]:
                lo = g["origin"][ax]
                ctx.check("C04.wrapped", lo - 1e-12 <= out.position[ax] <= lo + L[ax] + 1e-12, {"axis": ax, "pos": out.position}, tags)
        if state in ("outside", "outside-perturbed", "vanished-outside"):
            ctx.count("candidate-outside-box")
    elif kind == "cyl" and g["periodic_z"]:
        ctx.check("C04.wrapped", g["z"][0] - 1e-12 <= out.position[2] <= g["z"][1] + 1e-12, {"pos": out.position}, tags)
    # fix point: image rendered from the candidate itself
    if img == "clean" and lv == "fixed" and clsname != "SphericalDroplet" and cw not in (0.0,):
        cand1 = cand0.copy()
        if cand1.interface_width is None:
            cand1.interface_width = float(grid.typical_discretization)
        f2 = ScalarField(grid, cand1.get_phase_field(grid).data)
        _REC["calls"].clear()
        out2 = refine_droplet(f2, cand1.copy())
        ctx.op()
        v0 = np.asarray(cand1._data_array, float)
        v1 = np.asarray(out2._data_array, float)
        if kind == "cart":
            # compare positions modulo the period
            Lr = geom.cart_lengths(g)
            for ax in range(dim):
                if g["periodic"][ax]:
                    v1[ax] = v0[ax] + geom.min_image(v1[ax] - v0[ax], Lr[ax], True)
        ctx.check("C04.fixpoint", bool(np.all(np.abs(v1 - v0) <= 1e-6 * np.maximum(1.0, np.abs(v0)))), {"candidate": v0, "returned": v1}, tags)


def cons_idx(grid):
    return set(int(i) for i in grid.coordinate_constraints)


def expected_positive(tier):
    return ["C04.plural-agrees", "plural-calls-with-container-forms", "C04.options-not-carried-over", "C04.cost", "C04.deviation", "C04.class", "C04.bounds", "C04.constrained", "C04.wrapped", "C04.image-unmodified", "C04.fixpoint", "non-zero-initial-cost", "fit-improved",
            "constrained-coordinates", "candidate-outside-box", "candidate-covering-no-cell", "perturbed-candidate-without-modes", "fit-region-is-the-whole-grid"]
