"""C17 - length scales are physical lengths: they scale with the grid, not with the field.

Space (kind I): plane waves with EVERY admissible wave vector (>= 4 cells per period) on periodic grids in 1-3 dimensions x
amplitude x offset x phase, binary multi-droplet fields and all small fields of a 2-letter alphabet; x grid spacing over
five orders of magnitude x field scalings x all cyclic shifts of a menu x the three methods.
"""
import itertools
import math

import numpy as np

PID = "C17"
RULE = (
    "complete product field catalogue (all admissible plane-wave vectors x amplitudes x offsets x phases; droplet fields; all non-constant "
    "{0,1} fields on 6 and 2x3 cells) x spacing {1e-3, 1/32, 0.39, 1, 3, 10, 100} x scaling {-2, 0.5, 1e3} x shifts x methods; "
    "the reference spacing is 1; non-trivial = field is not constant"
    "; anisotropic equal-count grids; every shift of every 3x4 / 4x3 binary image and of a bar family for the counting method; bright+dim droplet family x every threshold rule x scales 2^-40..1e12; grid-sequence histories; spacings 1e-10..2e6 incl. consecutive analyses at 1e-10, 1e-9, 2e-9; knife-edge screen from an own FFT spectrum; droplet counting on partly periodic boxes under every translation along the periodic axis"
)
ASSUMPTIONS = [
    "periodic Cartesian grids; stretch factors restricted to the spacing menu; peak clause only for resolved single plane waves",
    "peak-based method compared within half a Fourier bin of the box (pi / L_max) as stated; other methods rtol 1e-9",
]
SPACINGS = [1e-10, 1e-9, 2e-9, 1e-3, 1 / 32, 0.39, 1.0, 3.0, 10.0, 100.0, 1e6, 2e6]  # sixteen decades, neighbours that differ by less than any absolute tolerance: no absolute length tolerance may matter
SCALES = [-2.0, 0.5, 1e3]
TWO_PI = 2 * math.pi


def grid_of(shape, dx, aspect=None, periodic=None):
    from pde import CartesianGrid

    aspect = aspect or [1.0] * len(shape)
    return CartesianGrid([(0, n * dx * a) for n, a in zip(shape, aspect)], shape, periodic=True if periodic is None else list(periodic))


def blocks(tier, seed):
    out = []
    shapes1 = [(16,), (24,), (32,)] if tier == "thorough" else [(16,), (24,)]
    for shape in shapes1 + [(16, 12)] + ([(8, 8, 8)] if tier == "thorough" else [(8, 6, 4)]):
        for m0 in range(0, shape[0] // 4 + 1):
            out.append({"kind": "waves", "shape": list(shape), "seedv": seed % 3, "m0": m0})
    # equal cell counts but different spacings per axis
    for shape, aspect in (([12, 12], [1.0, 2.0]), ([12, 12], [2.0, 1.0]), ([8, 8, 8] if tier == "thorough" else [8, 8, 4], [1.0, 2.0, 1.0])):
        for m0 in range(0, shape[0] // 4 + 1):
            out.append({"kind": "waves", "shape": list(shape), "aspect": aspect, "seedv": seed % 3, "m0": m0})
    # droplet counting under every translation of every small binary image
    for shape in [[3, 4], [4, 3], [7], [8], [10]] + ([[4, 4], [2, 2, 3], [12]] if tier == "thorough" else []):
        for b0 in (0, 1):
            for b1 in (0, 1):
                out.append({"kind": "shift-detect", "shape": shape, "prefix": [b0, b1]})
                if len(shape) == 2:
                    # partly periodic boxes: translations along the periodic axis only
                    for mask in ([True, False], [False, True]):
                        out.append({"kind": "shift-detect", "shape": shape, "prefix": [b0, b1], "mask": mask})
    # elongated domains whose equal-volume spheres overlap: the overlap removal has to discard several of them
    for l0 in BAR_LENGTHS:
        for l1 in BAR_LENGTHS:
            if l0 == 0 or l0 != l1:
                out.append({"kind": "bars", "first": l0, "second": l1, "tier": tier})
                if l0 == 0:
                    out.append({"kind": "bars", "first": l0, "second": l1, "tier": tier, "mask": [True, False]})
    for part in ("base", "rules", "gridseq"):
        out.append({"kind": "droplets", "seedv": seed % 3, "part": part})
    out.append({"kind": "nonconvex"})
    # droplet counting on cylindrical grids (droplets sit on the axis; the structure-factor methods are documented as Cartesian-only)
    for pz in (False, True):
        out.append({"kind": "cyl-detect", "periodic_z": pz})
    out.append({"kind": "small", "shape": [6]})
    out.append({"kind": "small", "shape": [2, 3]})
    return out


BAR_ROWS = [2, 4, 9, 11, 14]
BAR_LENGTHS = [0, 4, 7, 11, 14, 17]  # 0 = no bar in this row; all other lengths pairwise different (no ties between radii)


def wave_vectors(shape):
    rng = [range(0, n // 4 + 1) for n in shape]
    for m in itertools.product(*rng):
        if any(m):
            # sign combinations of the non-leading components (a real wave and its mirror are distinct fields in >= 2-D)
            nz = [i for i, v in enumerate(m) if v][1:]
            for signs in itertools.product((1, -1), repeat=len(nz)):
                mm = list(m)
                for i, s in zip(nz, signs):
                    mm[i] *= s
                yield mm


def cases(block):
    if block["kind"] == "waves":
        shape = block["shape"]
        amps = [0.2, 3.0]
        offs = [0.0, 0.3, -1.0]
        phases = [0.0, 0.4 + 0.1 * block["seedv"]]
        for m in wave_vectors(shape):
            if abs(m[0]) != block["m0"]:
                continue
            for a, o, p in itertools.product(amps, offs, phases):
                if len(shape) == 3 and (a, o) not in ((0.2, 0.3), (3.0, 0.0)):
                    continue
                c = {"kind": "wave", "shape": shape, "m": m, "amp": a, "offset": o, "phase": p}
                if block.get("aspect"):
                    if (a, o) not in ((0.2, 0.3), (3.0, 0.0)):
                        continue
                    c["aspect"] = block["aspect"]
                yield c
    elif block["kind"] == "droplets" and block.get("part", "base") == "base":
        for shape, centres, R in (((32,), [[7.3], [22.1]], 3.2), ((24, 24), [[6.2, 6.9], [17.5, 16.1]], 3.4), ((24, 24), [[5.2, 5.9], [17.5, 6.1], [5.5, 17.7], [18.1, 18.4]], 3.1),
                                  ((32,), [[4.3], [12.1], [20.4], [27.9]], 1.6), ((10, 10, 10), [[2.6, 2.7, 2.4], [7.3, 7.1, 7.6]], 2.1)):
            for extra in (0.0, 0.13 * (1 + block["seedv"])):
                yield {"kind": "droplets", "shape": list(shape), "centres": [[c + extra for c in cc] for cc in centres], "R": R}
    elif block["kind"] == "droplets" and block["part"] == "rules":
        # droplets of clearly different intensities: the threshold rules (extrema, mean, otsu) pick different sets
        yield {"kind": "droplets", "shape": [32], "centres": [[4.3], [12.1], [20.4], [27.9]], "R": 1.6, "levels": [1.0, 0.25, 0.3, 0.2], "rules": True}
        yield {"kind": "droplets", "shape": [24, 24], "centres": [[5.2, 5.9], [17.5, 6.1], [5.5, 17.7], [18.1, 18.4]], "R": 3.1, "levels": [1.0, 0.3, 0.25, 0.2], "rules": True}
        # one bright droplet and n dim ones (family over n, the dim level and the bright radius): Otsu and the mid-point rule count differently
        pos = [[4.2, 4.9], [12.5, 4.1], [20.1, 5.4], [4.5, 13.7], [12.2, 13.0], [20.3, 12.6], [8.1, 20.4], [16.9, 20.2]]
        for ndim in (1, 3, 5, 7):
            for lv in (0.2, 0.3, 0.45):
                for Rb in (1.6, 3.1):
                    yield {"kind": "droplets", "shape": [24, 24], "centres": pos[: ndim + 1], "R": 2.6, "levels": [1.0] + [lv] * ndim, "radii": [Rb] + [2.6] * ndim, "rules": True}
    elif block["kind"] == "droplets" and block["part"] == "gridseq":
        # histories: structure-factor methods on grids of equal shape and equal MEAN spacing but different per-axis spacing, fresh process
        for a, b in (([1.0, 2.0], [2.0, 1.0]), ([2.0, 1.0], [1.0, 2.0]), ([1.0, 3.0], [3.0, 1.0]), ([1.5, 1.5], [1.0, 2.0])):
            for m in ([3, 0], [0, 2], [2, 1]):
                w = {"kind": "wave", "shape": [12, 12], "m": m, "amp": 3.0, "offset": 0.0, "phase": 0.0, "light": True}
                yield {"sequence": [dict(w, aspect=a), dict(w, aspect=b)]}
    elif block["kind"] == "bars":
        for rest in itertools.product(BAR_LENGTHS, repeat=len(BAR_ROWS) - 2):
            lens = [block["first"], block["second"]] + list(rest)
            used = [l for l in lens if l]
            if len(used) >= 2 and len(set(used)) == len(used):
                c = {"kind": "bars", "shape": [20, 20], "lengths": lens, "all_shifts": block["tier"] == "thorough"}
                if block.get("mask"):
                    c["mask"] = block["mask"]
                yield c
    elif block["kind"] == "shift-detect":
        shape = block["shape"]
        n = int(np.prod(shape))
        for rest in itertools.product((0, 1), repeat=n - 2):
            bits = list(block["prefix"]) + list(rest)
            if 0 < sum(bits) < n:
                c = {"kind": "shift-detect", "shape": shape, "bits": bits}
                if block.get("mask"):
                    c["mask"] = block["mask"]
                yield c
    elif block["kind"] == "cyl-detect":
        for z0 in (0.0, -7.5, 20.0):
            for nz in (24, 30):
                # thin on-axis blobs, far enough apart that their equal-volume spheres (radius 1.9) are disjoint under every translation
                for blobs in ([(3, 6)], [(2, 5), (12, 15)], [(1, 4), (9, 12), (17, 20)]):
                    yield {"kind": "cyl-detect", "periodic_z": block["periodic_z"], "z0": z0, "nz": nz, "blobs": [list(b) for b in blobs]}
    elif block["kind"] == "nonconvex":
        for name in ("horseshoe", "ring+dot", "comb"):
            yield {"kind": "nonconvex", "shape": [14, 12], "name": name}
    else:
        shape = block["shape"]
        n = int(np.prod(shape))
        for bits in itertools.product((0, 1), repeat=n):
            if 0 < sum(bits) < n:
                yield {"kind": "small", "shape": shape, "bits": list(bits)}


def build(case):
    shape = tuple(case["shape"])
    if case["kind"] == "wave":
        idx = np.meshgrid(*[np.arange(n) + 0.5 for n in shape], indexing="ij")
        arg = sum(TWO_PI * m * x / n for m, x, n in zip(case["m"], idx, shape))
        return case["offset"] + case["amp"] * np.sin(arg + case["phase"])
    if case["kind"] == "droplets":
        idx = np.meshgrid(*[np.arange(n) + 0.5 for n in shape], indexing="ij")
        f = np.zeros(shape)
        for i, c in enumerate(case["centres"]):
            d2 = sum((((x - ci + n / 2) % n) - n / 2) ** 2 for x, ci, n in zip(idx, c, shape))
            lv = case["levels"][i] if case.get("levels") else 1.0
            Ri = case["radii"][i] if case.get("radii") else case["R"]
            f = np.maximum(f, lv * (0.5 + 0.5 * np.tanh((Ri - np.sqrt(d2)) / 1.0)))
        return f
    if case["kind"] == "bars":
        f = np.zeros(shape)
        for row, num in zip(BAR_ROWS, case["lengths"]):
            if num:
                start = shape[1] // 2 - num // 2
                f[row, start:start + num] = 1
        return f
    if case["kind"] == "nonconvex":
        f = np.zeros(shape)
        if case["name"] == "horseshoe":
            f[2:9, 2:4] = f[2:9, 7:9] = 1
            f[7:9, 2:9] = 1
        elif case["name"] == "ring+dot":
            f[1:8, 1:8] = 1
            f[3:6, 3:6] = 0
            f[10:12, 9:11] = 1
        else:
            f[1:3, 1:10] = 1
            f[3:8, 1:3] = f[3:8, 4:6] = f[3:8, 8:10] = 1
            f[10:13, 3:5] = 1
        return f
    return np.array(case["bits"], float).reshape(shape)


def run_rules(case, ctx, f, tags):
    """droplet counting with every threshold rule is unchanged when the field is multiplied by a positive constant (any magnitude)"""
    from pde import ScalarField

    from droplets import get_length_scale

    shape = f.shape
    counts = set()
    for rule in ("extrema", "mean", "otsu"):
        vals = []
        for c in (1.0, 0.5, 1e3, 1e-9, 2.0**-40, 1e12):
            ctx.op()
            try:
                vals.append(float(get_length_scale(ScalarField(grid_of(shape, 1.0), c * f), method="droplet_detection", threshold=rule)))
            except Exception as e:  # noqa
                vals.append(repr(e))
        ok = all((not isinstance(v, str)) and (v == vals[0] or abs(v - vals[0]) <= 1e-9 * abs(vals[0])) for v in vals)
        ctx.check("C17.field-scale", ok, {"rule": rule, "lengths": vals, "scales": [1.0, 0.5, 1e3, 1e-9, 2.0**-40, 1e12]}, dict(tags, method="droplet_detection", rule=rule))
        counts.add(vals[0] if not isinstance(vals[0], str) else None)
    if len(counts) > 1:
        ctx.count("fields-where-threshold-rules-disagree")


def run_case(case, ctx):
    from pde import ScalarField

    from droplets import get_length_scale

    if "sequence" in case:
        from mcx import core

        ctx.count("grid-sequences")
        return core.run_sequence_in_fork(run_case, case["sequence"], ctx, tag={"history": True})
    if case["kind"] == "cyl-detect":
        return run_cyl_detect(case, ctx)
    f = build(case)
    shape = f.shape
    dim = len(shape)
    tags = {"kind": case["kind"], "dim": dim}
    if case.get("rules"):
        return run_rules(case, ctx, f, tags)
    aspect = case.get("aspect") or [1.0] * dim
    if case.get("aspect"):
        ctx.count("equal-cell-counts-different-spacings")
        tags["anisotropic"] = True
    Lmax1 = max(n * a for n, a in zip(shape, aspect))  # largest box length at spacing 1

    def ls(data, dx, method, **kw):
        ctx.op()
        try:
            fld = ScalarField(grid_of(shape, dx, aspect, case.get("mask")), data)
            image = fld.data.tobytes()
            out = float(get_length_scale(fld, method=method, **kw))
            if fld.data.tobytes() != image:
                ctx.check("C17.field-unmodified", False, {"method": method, "dx": dx}, tags)
            return out
        except Exception as e:  # noqa
            return repr(e)

    if case["kind"] == "bars":
        from mcx import geom

        # screen ties: the greedy removal (closest pair first, smaller one goes) is order independent only without ties
        pmask = case.get("mask") or [True, True]
        if case.get("mask"):
            ctx.count("partly-periodic-boxes")
        comps = geom.components(f > 0.5, pmask)
        if any(c["winding"] for c in comps):
            ctx.skip("winding-domain")
            return
        rad = [math.sqrt(len(c["cells"]) / math.pi) for c in comps]
        cen = [np.mean(np.array(c["unwrapped"], float) + 0.5, axis=0) for c in comps]
        g = {"kind": "cart", "shape": list(shape), "dx": [1.0, 1.0], "origin": [0.0, 0.0], "periodic": pmask}
        S = sorted(geom.point_dist(g, cen[i], cen[j]) - rad[i] - rad[j] for i in range(len(comps)) for j in range(i + 1, len(comps)))
        if any(b - a < 1e-9 for a, b in zip(S, S[1:])) or any(abs(s_) < 1e-9 for s_ in S):
            ctx.skip("knife-edge:tied-surface-distances")
            return
        if sum(1 for s_ in S if s_ < 0) >= 2:
            ctx.count("fields-with->=2-overlapping-sphere-pairs")
        base = ls(f, 1.0, "droplet_detection")
        t = dict(tags, method="droplet_detection", has_winding_component=False)
        cols = (range(shape[1]) if case.get("all_shifts") else (0, 7)) if pmask[1] else (0,)
        for sh in itertools.product(range(shape[0]), cols):
            if any(sh):
                val = ls(np.roll(f, sh, axis=(0, 1)), 1.0, "droplet_detection")
                same = (not isinstance(val, str)) and (not isinstance(base, str)) and (val == base or abs(val - base) <= 1e-9 * abs(base))
                ctx.check("C17.shift", same, {"shift": sh, "length": val, "base": base}, t)
        for dx in (0.39, 10.0):
            val = ls(f, dx, "droplet_detection")
            ctx.check("C17.stretch", (not isinstance(val, str)) and (not isinstance(base, str)) and abs(val - base * dx) <= 1e-9 * abs(base * dx), {"length": val, "expected": base, "dx": dx}, t)
        return
    if case["kind"] == "shift-detect":
        from mcx import geom

        base = ls(f, 1.0, "droplet_detection")
        # a domain that winds around a periodic axis has no translation-covariant centre in the library (recorded finding)
        pmask = case.get("mask") or [True] * dim
        if case.get("mask"):
            ctx.count("partly-periodic-boxes")
        wind = any(c["winding"] for c in geom.components(f > 0.5, pmask))
        t = dict(tags, method="droplet_detection", has_winding_component=bool(wind))
        if wind:
            ctx.count("images-with-winding-domain")
        for sh in itertools.product(*[(range(n) if p_ else (0,)) for n, p_ in zip(shape, pmask)]):
            if any(sh):
                val = ls(np.roll(f, sh, axis=tuple(range(dim))), 1.0, "droplet_detection")
                same = (not isinstance(val, str)) and (not isinstance(base, str)) and (val == base or abs(val - base) <= 1e-9 * abs(base))
                ctx.check("C17.shift", same, {"shift": sh, "length": val, "base": base}, t)
        if not isinstance(base, str) and math.isfinite(base):
            ctx.count("translated-images-with-droplets")
        if dim == 1 and not wind:
            # one dimension: the equal-volume 'spheres' are the segments themselves, so the count is the number of components
            ncomp = len(geom.components(f > 0.5, pmask))
            ctx.check("C17.detection", (not isinstance(base, str)) and abs(base - shape[0] / ncomp) <= 1e-9 * shape[0], {"length": base, "components": ncomp, "box": shape[0]}, t)
            ctx.count("one-dimensional-images-counted")
        return

    methods = ["structure_factor_mean", "structure_factor_maximum"]
    if case["kind"] in ("droplets",):
        methods.append("droplet_detection")
    if case["kind"] == "nonconvex":
        # droplet counting under EVERY cyclic translation of a non-convex pattern
        base = ls(f, 1.0, "droplet_detection")
        t = dict(tags, method="droplet_detection")
        for sh in itertools.product(*[range(n) for n in shape]):
            val = ls(np.roll(f, sh, axis=(0, 1)), 1.0, "droplet_detection")
            ctx.check("C17.shift", (not isinstance(val, str)) and (not isinstance(base, str)) and abs(val - base) <= 1e-9 * abs(base), {"shift": sh, "length": val, "base": base}, t)
        ctx.count("non-convex-patterns")
        methods = ["structure_factor_mean"]
    # knife-edge screen for the peak-based method: the largest power must belong to one wave number only
    # (own spectrum from numpy's FFT and own wave numbers - the screen must not depend on the code under test)
    S_ = (np.abs(np.fft.fftn(f)) ** 2).ravel()[1:]
    k_ = np.sqrt(sum(np.meshgrid(*[(TWO_PI * np.fft.fftfreq(n, d=a)) ** 2 for n, a in zip(shape, aspect)], indexing="ij"))).ravel()[1:]
    top = {round(float(k), 9) for k, s_ in zip(k_, S_) if s_ >= S_.max() * (1 - 1e-6)}
    for method in methods:
        t = dict(tags, method=method)
        if method == "structure_factor_maximum" and len(top) > 1:
            ctx.skip("knife-edge:tied-spectral-maxima")
            continue
        ref = ls(f, 1.0, method)
        peak = method == "structure_factor_maximum"
        if isinstance(ref, str):
            ctx.check("C17.no-raise", False, {"exc": ref, "dx": 1.0}, t)
            continue
        if case["kind"] == "wave" and peak:
            ktrue = TWO_PI * math.sqrt(sum((m / (n * a)) ** 2 for m, n, a in zip(case["m"], shape, aspect)))
        for dx in SPACINGS:
            val = ref if dx == 1.0 else ls(f, dx, method)
            t2 = dict(t, spacing=dx)
            if isinstance(val, str):
                ctx.check("C17.no-raise", False, {"exc": val, "dx": dx}, t2)
                continue
            if peak:
                halfbin = math.pi / (Lmax1 * dx)
                if case["kind"] == "wave":
                    ok = math.isfinite(val) and val > 0 and abs(TWO_PI / val - ktrue / dx) <= halfbin * (1 + 1e-9)
                    ctx.check("C17.peak", ok, {"length": val, "k": TWO_PI / val if val else None, "k_true": ktrue / dx, "half_bin": halfbin, "dx": dx}, t2)
                if math.isfinite(ref) and ref > 0:
                    ok = math.isfinite(val) and val > 0 and abs(TWO_PI / val - TWO_PI / (ref * dx)) <= halfbin * (1 + 1e-9)
                    ctx.check("C17.stretch", ok, {"length": val, "expected": ref * dx, "dx": dx}, t2)
                else:
                    ctx.check("C17.stretch", (not math.isfinite(val)) == (not math.isfinite(ref)), {"length": val, "reference": ref, "dx": dx}, t2)
            else:
                ctx.check("C17.stretch", math.isfinite(val) and abs(val - ref * dx) <= 1e-9 * abs(ref * dx), {"length": val, "expected": ref * dx, "dx": dx}, t2)
        # scaling of the field and translations (at unit spacing and at one other spacing)
        for dx in (1.0, 3.0):
            base = ref if dx == 1.0 else ls(f, dx, method)
            if isinstance(base, str):
                continue
            halfbin = math.pi / (Lmax1 * dx)

            def same(val):
                if isinstance(val, str):
                    return False
                if peak:
                    if not (math.isfinite(base) and base > 0):
                        return not math.isfinite(val)
                    return math.isfinite(val) and val > 0 and abs(TWO_PI / val - TWO_PI / base) <= halfbin * (1 + 1e-9)
                return math.isfinite(val) and abs(val - base) <= 1e-9 * abs(base)

            if method != "droplet_detection":
                for c in SCALES:
                    val = ls(c * f, dx, method)
                    ctx.check("C17.field-scale", same(val), {"c": c, "length": val, "base": base, "dx": dx}, dict(t, spacing=dx))
            else:
                # positive scaling with the automatic threshold rule
                for c in (0.5, 1e3, 1e-9):
                    val = ls(c * f, dx, method, threshold="auto")
                    b2 = ls(f, dx, method, threshold="auto")
                    ctx.check("C17.field-scale", (not isinstance(val, str)) and (not isinstance(b2, str)) and abs(val - b2) <= 1e-9 * abs(b2), {"c": c, "length": val, "base": b2}, dict(t, spacing=dx))
            shifts = [tuple(1 for _ in shape), tuple((n // 2) + 1 for n in shape), tuple([shape[0] - 1] + [0] * (dim - 1))]
            for sh in shifts:
                val = ls(np.roll(f, sh, axis=tuple(range(dim))), dx, method)
                ctx.check("C17.shift", same(val), {"shift": sh, "length": val, "base": base, "dx": dx}, dict(t, spacing=dx))
        if method == "droplet_detection":
            nd = len(case["centres"])
            for dx in (1.0, 0.39, 10.0):
                val = ls(f, dx, method)
                want = (np.prod([n * dx for n in shape]) / nd) ** (1 / dim)
                ctx.check("C17.detection", (not isinstance(val, str)) and abs(val - want) <= 1e-9 * want, {"length": val, "want": want, "droplets": nd, "dx": dx}, dict(t, spacing=dx))
            # the documented forwarding of options to the droplet locator: refinement, also with worker processes, counts the same droplets
            from mcx import sched

            sched.install()
            for kw in ({"refine": True}, {"refine": True, "num_processes": 2}, {"refine": True, "num_processes": 3}, {"minimal_radius": 0.5}):
                val = ls(f, 1.0, method, **kw)
                want = (np.prod([float(n) for n in shape]) / nd) ** (1 / dim)
                ctx.check("C17.detection", (not isinstance(val, str)) and abs(val - want) <= 1e-9 * want, {"length": val, "want": want, "droplets": nd, "options": {k: v for k, v in kw.items()}}, dict(t, options="+".join(sorted(kw))))
                ctx.count("droplet-counting-with-forwarded-options")
    if np.ptp(f) > 0:
        ctx.count("non-constant-field")


def run_cyl_detect(case, ctx):
    from pde import CylindricalSymGrid, ScalarField

    from droplets import get_length_scale

    nz, z0, pz = case["nz"], case["z0"], case["periodic_z"]
    f = np.zeros((6, nz))
    for a, b in case["blobs"]:
        f[:2, a:b] = 1.0
    tags = {"kind": "cyl-detect", "periodic_z": pz, "method": "droplet_detection"}

    def ls(data, lam, **kw):
        ctx.op()
        try:
            grid = CylindricalSymGrid(6.0 * lam, (z0 * lam, (z0 + 0.75 * nz) * lam), (6, nz), periodic_z=pz)
            return float(get_length_scale(ScalarField(grid, data), method="droplet_detection", **kw))
        except Exception as e:  # noqa
            return repr(e)

    ref = ls(f, 1.0)
    ctx.check("C17.no-raise", not isinstance(ref, str), {"exc": ref}, tags)
    if isinstance(ref, str):
        return
    ctx.count("cylindrical-grids-counted")
    ctx.check("C17.finite", math.isfinite(ref) and ref > 0, {"length": ref}, tags)
    for lam in (1e-3, 0.39, 3.0, 100.0):
        val = ls(f, lam)
        ctx.check("C17.stretch", (not isinstance(val, str)) and abs(val - ref * lam) <= 1e-9 * abs(ref * lam), {"length": val, "expected": ref * lam, "factor": lam}, tags)
    for c in (0.5, 1e3, 1e-9):
        val = ls(c * f, 1.0, threshold="auto")  # positive scaling with the automatic threshold rule (as for the Cartesian fields)
        b2 = ls(f, 1.0, threshold="auto")
        ctx.check("C17.field-scale", (not isinstance(val, str)) and (not isinstance(b2, str)) and abs(val - b2) <= 1e-9 * abs(b2), {"c": c, "length": val, "base": b2}, tags)
    if pz:
        # translations along the periodic axis that keep every blob in one piece
        for sh in range(1, nz):
            g = np.roll(f, sh, axis=1)
            if g[0, 0] and g[0, -1]:
                continue
            val = ls(g, 1.0)
            ctx.check("C17.shift", (not isinstance(val, str)) and abs(val - ref) <= 1e-9 * abs(ref), {"shift": sh, "length": val, "base": ref}, tags)


def expected_positive(tier):
    return ["C17.stretch", "C17.field-scale", "C17.shift", "C17.peak", "C17.detection", "non-constant-field", "equal-cell-counts-different-spacings", "partly-periodic-boxes",
            "translated-images-with-droplets", "fields-with->=2-overlapping-sphere-pairs", "grid-sequences", "fields-where-threshold-rules-disagree", "cylindrical-grids-counted", "droplet-counting-with-forwarded-options"]
