"""C20 - collections stay aligned and own their droplets under any sequence of edits (kind H).

Three explorers (Emulsion, EmulsionTimeCourse, DropletTrack/-List).  A state is an operation history, replayed from
scratch on fresh library objects next to a plain list-of-values reference model; breadth-first to a depth bound; states are
deduplicated on a canonical form = (model values, alias pattern between all live droplet buffers of the implementation,
buffer kinds).  After every transition the content of every collection and of the caller-owned droplets is compared with
the model, alignment is checked and the summary queries are compared with their definitions.
"""
import itertools
import math

import numpy as np

PID = "C20"
RULE = (
    "breadth-first exploration of all operation sequences up to the depth bound over the declared alphabets of the three explorers; "
    "histories are replayed on fresh objects; dedupe on canon(model values, implementation alias pattern, buffer kinds) per block (= first "
    "operation); non-trivial = history contains at least one mutation or removal after an insertion"
    "; a second emulsion world whose main class is DiffuseDroplet (widths 0, 0.3, unset); separate link / write-row operations with the invariant 'linked rows == members' while the link is valid"
)
ASSUMPTIONS = [
    "operation alphabets and the four caller-owned droplets are fixed; depth 4 (quick) / 5 (thorough); default settings (copy=True) only",
    "state dedupe merges histories with equal model values AND equal observable alias pattern; hidden state outside droplet buffers, "
    "dtype and time lists is assumed absent",
]
DEDUPE = False
PI = math.pi


# ----------------------------------------------------------------------
# values
# ----------------------------------------------------------------------
def fresh_callers(variant="spherical"):
    from droplets import DiffuseDroplet, SphericalDroplet

    if variant == "diffuse":
        # same roles, but the collection's main class is DiffuseDroplet: sharp (width exactly 0), finite and unset widths
        return [
            DiffuseDroplet(np.array([1.0, 2.0]), 1.0, 0.0),
            DiffuseDroplet(np.array([3.0, 1.0]), 2.5, 0.3),
            SphericalDroplet(np.array([0.5, 0.5]), 0.7),
            DiffuseDroplet(np.array([1.0]), 1.0, 0.1),
            DiffuseDroplet(np.array([1.5, 2.0]), 0.4, None),
        ]
    return [
        SphericalDroplet(np.array([1.0, 2.0]), 1.0),
        SphericalDroplet(np.array([3.0, 1.0]), 2.5),
        DiffuseDroplet(np.array([0.5, 0.5]), 0.7, 0.2),
        SphericalDroplet(np.array([1.0]), 1.0),
        SphericalDroplet(np.array([1.5, 2.0]), 0.4),
    ]


def val(d):
    """model value of a droplet: (class name, tuple of floats)"""
    from numpy.lib.recfunctions import structured_to_unstructured

    a = np.asarray(structured_to_unstructured(np.asarray(d.data)), float).ravel()
    return (type(d).__name__, tuple(float(x) for x in a))


def vdim(v):
    return {"SphericalDroplet": len(v[1]) - 1, "DiffuseDroplet": len(v[1]) - 2}[v[0]]


def vrad(v):
    return v[1][vdim(v)]


def vpos(v):
    return v[1][: vdim(v)]


def vset_radius(v, r):
    d = vdim(v)
    return (v[0], v[1][:d] + (float(r),) + v[1][d + 1:])


def vlayout(v):
    return (v[0] == "DiffuseDroplet", vdim(v))


def vvol(v):
    r, d = vrad(v), vdim(v)
    return [2 * r, PI * r * r, 4 * PI / 3 * r**3][d - 1]


def varea(v):
    r, d = vrad(v), vdim(v)
    return [2.0, 2 * PI * r, 4 * PI * r * r][d - 1]


def vmerge(a, b):
    d = vdim(a)
    V1, V2 = vvol(a), vvol(b)
    V = V1 + V2
    r = [V / 2, math.sqrt(V / PI), (3 * V / (4 * PI)) ** (1 / 3)][d - 1]
    pos = tuple((V1 * x + V2 * y) / V for x, y in zip(vpos(a), vpos(b)))
    out = pos + (r,)
    if a[0] == "DiffuseDroplet":
        out = out + ((a[1][d + 1] + b[1][d + 1]) / 2,)
    return (a[0], out)


def close_val(a, b, tol=1e-12):
    if a[0] != b[0] or len(a[1]) != len(b[1]):
        return False
    return all((math.isnan(x) and math.isnan(y)) or x == y or (math.isfinite(x) and math.isfinite(y) and abs(x - y) <= tol * max(1.0, abs(x), abs(y))) for x, y in zip(a[1], b[1]))


def close_list(A, B):
    return len(A) == len(B) and all(close_val(a, b) for a, b in zip(A, B))


class Reject(Exception):
    """model says: the operation must raise and leave everything unchanged"""


# ----------------------------------------------------------------------
# Emulsion explorer
# ----------------------------------------------------------------------
EM_OPS = (
    ["append:0", "append:1", "append:2", "append:4", "extend:0,1", "extend:4,0", "appendF:2", "appendF:3", "appendF:0",
     "copy", "slice:0:1", "slice:1:", "slice:::-1", "add:EE", "add:ES", "remove_small:0.9", "remove_overlapping:0", "remove_overlapping:0.5",
     "link+write", "link", "writeD:0", "writeD:1", "merge01", "mut:E0", "mut:X0", "mut:S0", "clear", "copy_min:0.5", "extendS", "extendF:0,2", "extendF:1,0", "extendSF", "appendF_S:0", "appendF_S:3", "set0:1", "reverse"]
)


class EmWorld:
    VARIANT = "spherical"

    def __init__(self):
        from droplets import Emulsion

        self.X = fresh_callers(self.VARIANT)
        self.E = Emulsion()
        self.S = None
        self.D = None  # linked array
        self.mX = [val(x) for x in self.X]
        self.mE = []
        self.mS = None
        self.mdtype = None  # layout of the emulsion (model)
        self.mlinked = False
        self.linkvalid = False  # self.D is a linked array whose rows are (still) the members of E

    # -- one transition on implementation and model ----------------------
    def apply(self, op):
        self._apply(op)
        if self.raised_ok is None and op.partition(":")[0] not in ("link", "link+write", "writeD", "merge01", "mut", "copy", "slice", "copy_min"):
            self.linkvalid = False  # membership may have changed: the rows of an earlier linked array no longer describe the members

    def _apply(self, op):
        from droplets import Emulsion

        name, _, arg = op.partition(":")
        E, X = self.E, self.X
        if name == "link":
            if len(self.mE) == 0 or len({v[0] for v in self.mE}) > 1 or len({vlayout(v) for v in self.mE}) > 1:
                raise Reject
            self.D = E.get_linked_data()
            self.linkvalid = True
            self.mlinked = True
            return
        if name == "writeD":
            i = int(arg)
            if not self.linkvalid or i >= len(self.mE):
                raise Reject
            self.D[i]["radius"] = 4.0 + i
            self.mE[i] = vset_radius(self.mE[i], 4.0 + i)
            return
        if name in ("append", "appendF"):
            i = int(arg)
            force = name == "appendF"
            if force and self.mdtype is not None and self.mdtype != vlayout(self.mX[i]):
                self.expect_raise(lambda: E.append(X[i], force_consistency=True), ValueError)
                return
            E.append(X[i], force_consistency=force)
            self.mE.append(self.mX[i])
            if self.mdtype is None:
                self.mdtype = vlayout(self.mX[i])
        elif name == "extend":
            idx = [int(k) for k in arg.split(",")]
            E.extend([X[i] for i in idx])
            for i in idx:
                self.mE.append(self.mX[i])
                if self.mdtype is None:
                    self.mdtype = vlayout(self.mX[i])
        elif name == "appendF_S":
            # a consistency-checked addition to the derived collection S (copy / slice / sum), whose layout is that of its first member
            if self.S is None:
                raise Reject
            i = int(arg)
            sdtype = vlayout(self.mS[0]) if self.mS else None
            if sdtype is not None and sdtype != vlayout(self.mX[i]):
                self.expect_raise(lambda: self.S.append(X[i], force_consistency=True), ValueError)
                return
            self.S.append(X[i], force_consistency=True)
            self.mS.append(self.mX[i])
        elif name == "set0":
            # plain list item assignment (an Emulsion is a list): replaces a member without changing the length
            if not self.mE:
                raise Reject
            i = int(arg)
            E[0] = X[i].copy()
            self.mE[0] = self.mX[i]
        elif name == "reverse":
            if len(self.mE) < 2:
                raise Reject
            E.reverse()
            self.mE.reverse()
        elif name in ("extendF", "extendSF"):
            # several droplets at once with consistency requested: a list of caller objects / the collection S itself
            if name == "extendSF":
                if self.S is None:
                    raise Reject
                src, mvals = self.S, list(self.mS)
            else:
                idx = [int(k) for k in arg.split(",")]
                src, mvals = [X[i] for i in idx], [self.mX[i] for i in idx]
            md, prefix, bad = self.mdtype, [], False
            for v in mvals:
                if md is None:
                    md = vlayout(v)
                if vlayout(v) != md:
                    bad = True
                    break
                prefix.append(v)
            if not bad:
                E.extend(src, force_consistency=True)
                self.mE.extend(mvals)
                self.mdtype = md
                return
            n0 = len(E)
            try:
                E.extend(src, force_consistency=True)
            except ValueError:
                # rejecting may keep the compatible members that precede the offending one (member-wise append) or nothing
                if prefix and len(E) == n0 + len(prefix):
                    self.mE.extend(prefix)
                    self.mdtype = md
                self.partial_reject = True
                return
            except Exception as e:  # noqa
                self.raised_ok = repr(e)
                return
            self.raised_ok = "no exception"
        elif name == "extendS":
            if self.S is None:
                raise Reject
            E.extend(self.S)
            for v in self.mS:
                self.mE.append(v)
                if self.mdtype is None:
                    self.mdtype = vlayout(v)
        elif name == "copy":
            self.S = E.copy()
            self.mS = list(self.mE)
        elif name == "copy_min":
            r = float(arg)
            self.S = E.copy(min_radius=r)
            self.mS = [v for v in self.mE if vrad(v) > r]
        elif name == "slice":
            parts = arg.split(":")
            sl = slice(*[int(p) if p else None for p in parts])
            self.S = E[sl]
            self.mS = list(self.mE[sl])
        elif name == "add":
            if arg == "EE":
                self.S = E + E
                self.mS = self.mE + self.mE
            else:
                if self.S is None:
                    raise Reject
                self.S = E + self.S
                self.mS = self.mE + self.mS
        elif name == "remove_small":
            r = float(arg)
            E.remove_small(r)
            self.mE = [v for v in self.mE if vrad(v) > r]
        elif name == "remove_overlapping":
            md = float(arg)
            if len({vdim(v) for v in self.mE}) > 1:
                raise Reject  # distances between droplets of different dimension are undefined: outside the property
            keep = model_remove_overlapping(self.mE, md)
            if keep is None:
                raise Reject  # tie / knife-edge: outcome not determined by the statement
            E.remove_overlapping(md)
            self.mE = [self.mE[i] for i in keep]
        elif name == "link+write":
            if len(self.mE) == 0 or len({v[0] for v in self.mE}) > 1 or len({vlayout(v) for v in self.mE}) > 1:
                raise Reject  # tabular data is only defined for homogeneous non-empty emulsions
            D = E.get_linked_data()
            D[0]["radius"] = 9.0
            self.D = D
            self.linkvalid = True
            self.mE[0] = vset_radius(self.mE[0], 9.0)
            self.mlinked = True
        elif name == "merge01":
            if len(self.mE) < 2 or self.mE[0][0] != self.mE[1][0] or vlayout(self.mE[0]) != vlayout(self.mE[1]) or vvol(self.mE[0]) + vvol(self.mE[1]) == 0:
                raise Reject
            if self.mE[0][0] == "DiffuseDroplet" and (math.isnan(self.mE[0][1][-1]) or math.isnan(self.mE[1][1][-1])):
                raise Reject
            E[0].merge(E[1], inplace=True)
            self.mE[0] = vmerge(self.mE[0], self.mE[1])
        elif name == "mut":
            if arg == "E0":
                if not self.mE:
                    raise Reject
                E[0].radius = 5.0
                self.mE[0] = vset_radius(self.mE[0], 5.0)
            elif arg == "X0":
                X[0].radius = 7.0
                self.mX[0] = vset_radius(self.mX[0], 7.0)
            elif arg == "S0":
                if not self.mS:
                    raise Reject
                self.S[0].radius = 6.0
                self.mS[0] = vset_radius(self.mS[0], 6.0)
        elif name == "clear":
            E.clear()
            self.mE = []
        else:
            raise ValueError(op)

    def expect_raise(self, fn, exc):
        before = (self.content(), )
        try:
            fn()
        except exc:
            self.raised_ok = True
            return
        except Exception as e:  # wrong exception type
            self.raised_ok = repr(e)
            return
        self.raised_ok = "no exception"

    def content(self):
        out = {"E": [val(d) for d in self.E], "S": None if self.S is None else [val(d) for d in self.S], "X": [val(x) for x in self.X]}
        if self.linkvalid:
            from numpy.lib.recfunctions import structured_to_unstructured

            rows = np.asarray(structured_to_unstructured(np.asarray(self.D)), float).reshape(len(self.D), -1)
            out["D"] = [(type(d).__name__, tuple(float(x) for x in row)) for d, row in zip(self.E, rows)]
        return out

    def model(self):
        out = {"E": list(self.mE), "S": None if self.mS is None else list(self.mS), "X": list(self.mX)}
        if self.linkvalid:
            out["D"] = list(self.mE)  # linked rows and members are two views of the same values
        return out

    def live(self):
        out = [("E", i, d) for i, d in enumerate(self.E)]
        if self.S is not None:
            out += [("S", i, d) for i, d in enumerate(self.S)]
        out += [("X", i, d) for i, d in enumerate(self.X)]
        return out

    def summary(self, ctx, tags):
        from droplets import Emulsion

        E, m = self.E, self.mE
        ok = len(E) == len(m)
        ctx.check("C20.summary", ok, {"what": "len", "got": len(E), "want": len(m)}, tags)
        if len({vdim(v) for v in m}) > 1:
            return
        for incl in (True, False):
            st = E.get_size_statistics(incl_vanished=incl)
            mm = m if incl else [v for v in m if vrad(v) > 0]
            if not m:
                want = {"count": 0}
            else:
                radii = [vrad(v) for v in mm]
                vols = [vvol(v) for v in mm]
                want = {"count": len(mm), "radius_mean": np.mean(radii) if mm else math.nan, "radius_std": np.std(radii) if mm else math.nan,
                        "volume_mean": np.mean(vols) if mm else math.nan, "volume_std": np.std(vols) if mm else math.nan}
            good = st["count"] == want["count"] and all((math.isnan(want[k]) and math.isnan(st[k])) or abs(st[k] - want[k]) <= 1e-12 * max(1, abs(want[k])) for k in want if k != "count")
            ctx.check("C20.summary", bool(good), {"what": "size_statistics", "got": {k: float(v) for k, v in st.items()}, "want": {k: float(v) for k, v in want.items()}}, tags)
        tv = E.total_droplet_volume
        wantv = sum(vvol(v) for v in m)
        ctx.check("C20.summary", abs(tv - wantv) <= 1e-12 * max(1, wantv), {"what": "total_volume", "got": tv, "want": wantv}, tags)
        w = E.interface_width
        num = sum(v[1][-1] * varea(v) for v in m if v[0] == "DiffuseDroplet" and not math.isnan(v[1][-1]))
        den = sum(varea(v) for v in m if v[0] == "DiffuseDroplet" and not math.isnan(v[1][-1]))
        wantw = None if den == 0 else num / den
        ctx.check("C20.summary", (w is None and wantw is None) or (w is not None and wantw is not None and abs(w - wantw) <= 1e-12), {"what": "interface_width", "got": w, "want": wantw}, tags)
        if m:
            bb = np.asarray(E.bbox.bounds)
            lo = np.min([np.array(vpos(v)) - vrad(v) for v in m], axis=0)
            hi = np.max([np.array(vpos(v)) + vrad(v) for v in m], axis=0)
            ctx.check("C20.summary", bool(np.allclose(bb[:, 0], lo, rtol=0, atol=1e-12) and np.allclose(bb[:, 1], hi, rtol=0, atol=1e-12)), {"what": "bbox", "got": bb, "lo": lo, "hi": hi}, tags)
            ctx.check("C20.summary", E.dim == self.mdtype[1], {"what": "dim (layout fixed by the first droplet added)", "got": E.dim, "want": self.mdtype[1]}, tags)
            # order independence
            R = Emulsion(list(E)[::-1])
            s1, s2 = E.get_size_statistics(), R.get_size_statistics()
            ctx.check("C20.summary", all(s1[k] == s2[k] or (math.isfinite(s1[k]) and math.isfinite(s2[k]) and abs(s1[k] - s2[k]) <= 1e-12 * max(1, abs(s1[k]))) or (math.isnan(s1[k]) and math.isnan(s2[k])) for k in s1) and abs(R.total_droplet_volume - tv) <= 1e-12 * max(1, tv)
                      and np.allclose(np.asarray(R.bbox.bounds), bb, rtol=0, atol=1e-12), {"what": "order-independence"}, tags)
            if len({v[0] for v in m}) == 1 and len({vlayout(v) for v in m}) == 1:
                data = E.data
                ok = len(data) == len(m) and all(abs(float(data["radius"][i]) - vrad(v)) <= 1e-12 for i, v in enumerate(m)) and np.allclose(np.asarray(data["position"]), [vpos(v) for v in m], rtol=0, atol=1e-12)
                ctx.check("C20.summary", bool(ok), {"what": "data"}, tags)


def model_remove_overlapping(m, md):
    """reference for the greedy removal; returns kept indices or None when the outcome depends on a tie"""
    idx = list(range(len(m)))
    while len(idx) > 1:
        best = None
        for a in range(len(idx)):
            for b in range(a + 1, len(idx)):
                va, vb = m[idx[a]], m[idx[b]]
                s = math.dist(vpos(va), vpos(vb)) - vrad(va) - vrad(vb)
                if best is None or s < best[0] - 1e-12:
                    best = (s, a, b, False)
                elif abs(s - best[0]) <= 1e-12:
                    best = (best[0], best[1], best[2], True)
        s, a, b, tie = best
        if abs(s - md) <= 1e-9:
            return None
        if s >= md:
            break
        if tie:
            return None
        ra, rb = vrad(m[idx[a]]), vrad(m[idx[b]])
        if abs(ra - rb) <= 1e-12:
            return None
        idx.pop(b if ra > rb else a)
    return idx


# ----------------------------------------------------------------------
# EmulsionTimeCourse explorer
# ----------------------------------------------------------------------
TC_OPS = ["app:0", "app:1", "app:2", "app:1@0.5", "app:2@2.0", "app:0@-1.0", "app:1@0.0", "slice:0:2", "slice:1:", "slice:::-1", "ctor", "clear",
          "mut:T00", "mut:C1", "mut:S00", "appS:1", "clearS", "ctorL", "tracks:overlap", "tracks:distance"]


class TcWorld:
    def __init__(self):
        from droplets import Emulsion, EmulsionTimeCourse

        self.X = fresh_callers()
        self.C = [Emulsion(), Emulsion([self.X[0]]), Emulsion([self.X[0], self.X[1]])]  # caller-owned emulsions
        self.T = EmulsionTimeCourse()
        self.S = None
        self.LT = [0.5, 1.5]  # caller-owned list of time stamps and list of emulsions handed to a constructor ("ctorL")
        self.LE = [self.C[1], self.C[2]]
        self.mC = [[val(d) for d in e] for e in self.C]
        self.mT = []  # list of (time, [values])
        self.mS = None

    def apply(self, op):
        from droplets import EmulsionTimeCourse

        name, _, arg = op.partition(":")
        if name == "app":
            if "@" in arg:
                i, t = arg.split("@")
                i, t = int(i), float(t)
                self.T.append(self.C[i], time=t)
            else:
                i = int(arg)
                t = 0 if not self.mT else self.mT[-1][0] + 1
                self.T.append(self.C[i])
            self.mT.append((t, list(self.mC[i])))
        elif name == "appS":
            if self.S is None:
                raise Reject
            i = int(arg)
            t = 0 if not self.mS else self.mS[-1][0] + 1
            self.S.append(self.C[i])
            self.mS.append((t, list(self.mC[i])))
        elif name == "slice":
            parts = arg.split(":")
            sl = slice(*[int(p) if p else None for p in parts])
            self.S = self.T[sl]
            self.mS = [(t, list(v)) for t, v in self.mT[sl]]
        elif name == "ctor":
            self.S = EmulsionTimeCourse(self.T)
            self.mS = [(t, list(v)) for t, v in self.mT]
        elif name == "tracks":
            # conversion to tracks: the track list owns its droplets (content = the frames' droplets at the time of the conversion)
            from droplets import DropletTrackList

            times = [t for t, _ in self.mT]
            if not times or any(b <= a for a, b in zip(times, times[1:])):
                raise Reject  # tracking is defined for strictly increasing times
            self.L = DropletTrackList.from_emulsion_time_course(self.T, method=arg)
            self.mL = sorted((float(t), v) for t, vs in self.mT for v in vs)
        elif name == "ctorL":
            self.S = EmulsionTimeCourse(self.LE, times=self.LT)
            self.mS = [(0.5, list(self.mC[1])), (1.5, list(self.mC[2]))]
        elif name == "clear":
            self.T.clear()
            self.mT = []
        elif name == "clearS":
            if self.S is None:
                raise Reject
            self.S.clear()
            self.mS = []
        elif name == "mut":
            if arg == "T00":
                if not self.mT or not self.mT[0][1]:
                    raise Reject
                self.T[0][0].radius = 5.0
                self.mT[0][1][0] = vset_radius(self.mT[0][1][0], 5.0)
            elif arg == "C1":
                self.C[1][0].radius = 7.0
                self.mC[1][0] = vset_radius(self.mC[1][0], 7.0)
            elif arg == "S00":
                if not self.mS or not self.mS[0][1]:
                    raise Reject
                self.S[0][0].radius = 6.0
                self.mS[0][1][0] = vset_radius(self.mS[0][1][0], 6.0)
        else:
            raise ValueError(op)

    def content(self):
        def tc(T):
            return None if T is None else [(float(t), [val(d) for d in e]) for t, e in zip(T.times, T.emulsions)]

        L = getattr(self, "L", None)
        return {"T": tc(self.T), "S": tc(self.S), "C": [[val(d) for d in e] for e in self.C], "caller_lists": [list(self.LT), len(self.LE)],
                "L": None if L is None else sorted((float(t), val(d)) for trk in L for t, d in zip(trk.times, trk.droplets))}

    def model(self):
        f = lambda M: None if M is None else [(float(t), list(v)) for t, v in M]
        return {"T": f(self.mT), "S": f(self.mS), "C": [list(v) for v in self.mC], "caller_lists": [[0.5, 1.5], 2], "L": getattr(self, "mL", None)}

    def live(self):
        out = [("T", (i, j), d) for i, e in enumerate(self.T.emulsions) for j, d in enumerate(e)]
        if self.S is not None:
            out += [("S", (i, j), d) for i, e in enumerate(self.S.emulsions) for j, d in enumerate(e)]
        out += [("C", (i, j), d) for i, e in enumerate(self.C) for j, d in enumerate(e)]
        if getattr(self, "L", None) is not None:
            out += [("L", (i, j), d) for i, trk in enumerate(self.L) for j, d in enumerate(trk.droplets)]
        return out

    def aligned(self, ctx, tags):
        for nm, T in (("T", self.T), ("S", self.S)):
            if T is not None:
                ctx.check("C20.aligned", len(T.times) == len(T.emulsions) == len(T), {"which": nm, "times": len(T.times), "emulsions": len(T.emulsions)}, tags)
        if self.S is not None:
            ctx.check("C20.aligned", self.S.times is not self.T.times and self.S.emulsions is not self.T.emulsions, {"what": "slice/copy shares list objects with its source"}, tags)

    def summary(self, ctx, tags):
        T, m = self.T, self.mT
        ctx.check("C20.summary", len(T) == len(m), {"what": "len"}, tags)
        if m:
            times = [t for t, _ in m]
            for probe in (-5.0, -0.6, 0.2, 0.5, 0.75, 1.25, 1.5, 2.0, 2.6, 99.0):
                dists = [abs(t - probe) for t in times]
                best = min(dists)
                cands = [i for i, d_ in enumerate(dists) if d_ <= best + 1e-12]
                got = T.get_emulsion(probe)
                hit = [i for i in cands if got is T.emulsions[i]]
                ctx.check("C20.summary", len(hit) > 0, {"what": "get_emulsion", "probe": probe, "times": times, "nearest": cands}, tags)
            ctx.check("C20.summary", [(float(t), [val(d) for d in e]) for t, e in T.items()] == [(float(t), [val(d) for d in e]) for t, e in zip(T.times, T.emulsions)], {"what": "items"}, tags)


# ----------------------------------------------------------------------
# DropletTrack / DropletTrackList explorer
# ----------------------------------------------------------------------
TR_OPS = ["app:0", "app:1", "app:4", "app:2", "app:0@0.5", "app:1@3.0", "app:0@-2.0", "app:1@0.0", "app:3", "slice:0:2", "slice:1:", "ctor", "mut:K0", "mut:X0", "mut:S0",
          "new-track", "remove_short:0", "remove_short:1.0", "list-slice:0:1"]


class TrWorld:
    """a track list L (caller side) whose last track K is being edited"""

    def __init__(self):
        from droplets import DropletTrack, DropletTrackList

        self.X = fresh_callers()
        self.K = DropletTrack()
        self.L = DropletTrackList([self.K])
        self.S = None
        self.mX = [val(x) for x in self.X]
        self.mL = [[]]  # list of tracks: list of (time, value); the edited track is the last one that 'is' K
        self.kidx = 0
        self.mS = None
        self.LS = None
        self.mLS = None

    def apply(self, op):
        from droplets import DropletTrack

        name, _, arg = op.partition(":")
        mK = self.mL[self.kidx] if self.kidx is not None else None
        if name == "app":
            if mK is None:
                raise Reject
            if "@" in arg:
                i, t = arg.split("@")
                i, t = int(i), float(t)
                explicit = True
            else:
                i, explicit = int(arg), False
                t = 0 if not mK else mK[-1][0] + 1
            if mK and vdim(mK[-1][1]) != vdim(self.mX[i]):
                self.expect_raise(lambda: self.K.append(self.X[i], time=t) if explicit else self.K.append(self.X[i]), ValueError)
                return
            if explicit:
                self.K.append(self.X[i], time=t)
            else:
                self.K.append(self.X[i])
            mK.append((t, self.mX[i]))
        elif name == "slice":
            if mK is None:
                raise Reject
            parts = arg.split(":")
            sl = slice(*[int(p) if p else None for p in parts])
            self.S = self.K[sl]
            self.mS = list(mK[sl])
        elif name == "ctor":
            if mK is None:
                raise Reject
            self.S = DropletTrack(self.K)
            self.mS = list(mK)
        elif name == "mut":
            if arg == "K0":
                if not mK:
                    raise Reject
                self.K.droplets[0].radius = 5.0
                mK[0] = (mK[0][0], vset_radius(mK[0][1], 5.0))
            elif arg == "X0":
                self.X[0].radius = 7.0
                self.mX[0] = vset_radius(self.mX[0], 7.0)
            elif arg == "S0":
                if not self.mS:
                    raise Reject
                self.S.droplets[0].radius = 6.0
                self.mS[0] = (self.mS[0][0], vset_radius(self.mS[0][1], 6.0))
        elif name == "new-track":
            self.K = DropletTrack()
            self.L.append(self.K)
            self.mL.append([])
            self.kidx = len(self.mL) - 1
        elif name == "remove_short":
            md = float(arg)
            durs = [(tr[-1][0] - tr[0][0]) if tr else 0 for tr in self.mL]
            self.L.remove_short_tracks(md)
            keep = [i for i, du in enumerate(durs) if du > md]
            if self.kidx is not None:
                self.kidx = keep.index(self.kidx) if self.kidx in keep else None
            self.mL = [self.mL[i] for i in keep]
        elif name == "list-slice":
            parts = arg.split(":")
            sl = slice(*[int(p) if p else None for p in parts])
            self.LS = self.L[sl]
            self.mLS = [list(t) for t in self.mL[sl]]
            self.lsl = sl
        else:
            raise ValueError(op)

    expect_raise = EmWorld.expect_raise

    def content(self):
        tr = lambda K: [(float(t), val(d)) for t, d in zip(K.times, K.droplets)]
        return {"L": [tr(K) for K in self.L], "S": None if self.S is None else tr(self.S), "X": [val(x) for x in self.X],
                "LS": None if self.LS is None else [tr(K) for K in self.LS]}

    def model(self):
        # a list slice shares the track objects with the list (plain list semantics): its content follows the live tracks
        f = lambda M: [(float(t), v) for t, v in M]
        return {"L": [f(t) for t in self.mL], "S": None if self.mS is None else f(self.mS), "X": list(self.mX), "LS": None if self.LS is None else [[(float(t), val(d)) for t, d in zip(K.times, K.droplets)] for K in self.LS]}

    def live(self):
        out = [("L", (i, j), d) for i, K in enumerate(self.L) for j, d in enumerate(K.droplets)]
        if self.S is not None:
            out += [("S", j, d) for j, d in enumerate(self.S.droplets)]
        out += [("X", i, d) for i, d in enumerate(self.X)]
        return out

    def aligned(self, ctx, tags):
        from droplets import DropletTrackList

        for K in list(self.L) + ([self.S] if self.S is not None else []):
            ctx.check("C20.aligned", len(K.times) == len(K.droplets) == len(K), {"times": len(K.times), "droplets": len(K.droplets)}, tags)
        if self.S is not None and self.K is not None:
            ctx.check("C20.aligned", self.S.times is not self.K.times and self.S.droplets is not self.K.droplets, {"what": "slice/copy shares list objects with its source"}, tags)
        if self.LS is not None:
            ctx.check("C20.aligned", isinstance(self.LS, DropletTrackList), {"what": "list slice type"}, tags)

    def summary(self, ctx, tags):
        for K, m in zip(self.L, self.mL):
            ctx.check("C20.summary", len(K) == len(m), {"what": "len"}, tags)
            dur = (m[-1][0] - m[0][0]) if m else 0
            ctx.check("C20.summary", K.duration == dur, {"what": "duration", "got": K.duration, "want": dur}, tags)
            if m:
                ctx.check("C20.summary", K.start == m[0][0] and K.end == m[-1][0] and val(K.first) == m[0][1] and val(K.last) == m[-1][1] and K.dim == vdim(m[-1][1]), {"what": "start/end/first/last/dim"}, tags)
                traj = K.get_trajectory()
                ctx.check("C20.summary", traj.shape == (len(m), vdim(m[0][1])) and bool(np.array_equal(traj, np.array([vpos(v) for _, v in m]))), {"what": "trajectory"}, tags)
                ctx.check("C20.summary", bool(np.array_equal(K.get_radii(), [vrad(v) for _, v in m])) and bool(np.allclose(K.get_volumes(), [vvol(v) for _, v in m], rtol=1e-14, atol=0)), {"what": "radii/volumes"}, tags)
                t0 = m[0][0]
                first = next(v for t, v in m if t == t0)
                ctx.check("C20.summary", bool(np.array_equal(K.get_position(t0), vpos(first))), {"what": "get_position"}, tags)
                if len({v[0] for _, v in m}) == 1 and len({vlayout(v) for _, v in m}) == 1:
                    data = K.data
                    ctx.check("C20.summary", len(data) == len(m) and bool(np.array_equal(data["time"], [t for t, _ in m])) and bool(np.array_equal(data["radius"], [vrad(v) for _, v in m])), {"what": "data"}, tags)
            else:
                ctx.check("C20.summary", K.data is None and K.dim is None, {"what": "empty-track"}, tags)


class EmWorldDiffuse(EmWorld):
    VARIANT = "diffuse"


WORLDS = {"emulsion": (EmWorld, EM_OPS), "emulsion-diffuse": (EmWorldDiffuse, EM_OPS), "timecourse": (TcWorld, TC_OPS), "track": (TrWorld, TR_OPS)}


# ----------------------------------------------------------------------
# BFS driver
# ----------------------------------------------------------------------
def alias_pattern(world):
    live = world.live()
    bufs = [np.asarray(d.data) for _, _, d in live]
    pat = []
    for i in range(len(live)):
        for j in range(i + 1, len(live)):
            if np.shares_memory(bufs[i], bufs[j]) or live[i][2] is live[j][2]:
                pat.append((live[i][0], repr(live[i][1]), live[j][0], repr(live[j][1])))
    kinds = tuple(sorted({(who, type(d.data).__name__) for who, _, d in live}))
    return tuple(pat), kinds


def replay(kind, hist):
    W, _ = WORLDS[kind]
    w = W()
    for op in hist:
        w.raised_ok = None
        w.apply(op)
    return w


def step(kind, hist, op, ctx):
    """replay hist (already validated), apply op with all checks; returns canon or None (op not enabled / violation)"""
    tags = {"explorer": kind, "op": op.split(":")[0]}
    w = replay(kind, hist)
    before_model = repr(w.model())
    w.raised_ok = None
    try:
        w.apply(op)
        ctx.op()
    except Reject:
        return None
    except Exception as e:  # noqa
        ctx.check("C20.no-raise", False, {"hist": hist, "op": op, "exc": repr(e)}, dict(tags, linked=bool(getattr(w, "mlinked", False))), case={"explorer": kind, "hist": hist + [op]})
        return None
    case = {"explorer": kind, "hist": hist + [op]}
    if getattr(w, "partial_reject", False):
        ctx.check("C20.reject", True)
        ctx.count("bulk-additions-rejected")
    if w.raised_ok is not None:
        ctx.check("C20.reject", w.raised_ok is True, {"outcome": w.raised_ok}, tags, case=case)
        ctx.check("C20.reject", repr(w.model()) == before_model and contents_match(w), {"what": "rejected operation changed a collection"}, tags, case=case)
    ctx.check("C20.no-raise", True)
    got, want = w.content(), w.model()
    ok = contents_match(w)
    ctx.check("C20.content", ok, {"got": got, "want": want}, tags, case=case)
    if hasattr(w, "aligned"):
        w.aligned(ctx, tags)
    pat, kinds = alias_pattern(w)
    allowed = kind == "track" and all(a[0] in ("L",) for a in pat)  # list slices share track objects by list semantics
    ctx.check("C20.no-alias", len(pat) == 0 or allowed, {"aliases": pat}, tags, case=case)
    if not ok:
        return None
    try:
        w.summary(ctx, tags)
    except Exception as e:  # noqa
        ctx.check("C20.no-raise", False, {"hist": hist + [op], "in": "summary", "exc": repr(e)}, dict(tags, linked=bool(getattr(w, "mlinked", False))), case=case)
    return (repr(want), pat, kinds, getattr(w, "mdtype", None), getattr(w, "kidx", None))


def deep_eq(a, b):
    if a is None or b is None:
        return a is None and b is None
    if isinstance(a, str) or isinstance(b, str):
        return a == b
    if isinstance(a, (int, float)) and isinstance(b, (int, float)):
        return (math.isnan(a) and math.isnan(b)) or a == b or (math.isfinite(a) and math.isfinite(b) and abs(a - b) <= 1e-12 * max(1.0, abs(a), abs(b)))
    if isinstance(a, (list, tuple)) and isinstance(b, (list, tuple)):
        return len(a) == len(b) and all(deep_eq(x, y) for x, y in zip(a, b))
    if isinstance(a, dict) and isinstance(b, dict):
        return a.keys() == b.keys() and all(deep_eq(a[k], b[k]) for k in a)
    return a == b


def contents_match(w):
    return deep_eq(w.content(), w.model())


SUMMARY_CLASSES = ["SphericalDroplet", "DiffuseDroplet", "PerturbedDroplet2D", "PerturbedDroplet3D", "PerturbedDroplet3DAxisSym"]
SUMMARY_RADII = {"spread": [1.0, 2.5, 0.4, 1.7], "near-equal": [10.0 + k * 1e-7 for k in range(4)], "equal": [0.3] * 4, "huge": [1e8 + k for k in range(4)], "with-vanished": [1.0, 0.0, 2.0, 0.0]}


def summary_members(cls, dim, radii):
    from droplets import droplets as dm

    out = []
    for i, r in enumerate(radii):
        pos = np.array([1.0 + 2.0 * i, -0.5 * i, 0.25 * i][:dim]) if cls != "PerturbedDroplet3DAxisSym" else np.array([0.0, 0.0, 1.0 + 2.0 * i])
        if cls == "SphericalDroplet":
            out.append(dm.SphericalDroplet(pos, r))
        elif cls == "DiffuseDroplet":
            out.append(dm.DiffuseDroplet(pos, r, 0.1 * (i + 1)))
        elif cls == "PerturbedDroplet2D":
            out.append(dm.PerturbedDroplet2D(pos, r, 0.1 * (i + 1), [0.3 - 0.1 * i, 0.2, 0.0, -0.25][: 2 + 2 * 1]))
        elif cls == "PerturbedDroplet3D":
            out.append(dm.PerturbedDroplet3D(pos, r, 0.1 * (i + 1), [0.0, 0.2 - 0.05 * i, 0.1]))
        else:
            out.append(dm.PerturbedDroplet3DAxisSym(pos, r, 0.1 * (i + 1), [0.15, -0.1 * (i % 2)]))
    return out


def run_summary_classes(block, ctx):
    """summary queries of an emulsion equal their definitions over the MEMBERS (each member's own volume / bounding box), for every
    droplet class, every way of building the emulsion, every subset size"""
    import copy
    import pickle

    from droplets import Emulsion

    cls = block["cls"]
    dims = {"SphericalDroplet": (1, 2, 3), "DiffuseDroplet": (1, 2, 3), "PerturbedDroplet2D": (2,)}.get(cls, (3,))
    if cls.startswith("Perturbed"):
        # consistency requested: a member with another NUMBER OF MODES has another data layout and must be rejected - also after
        # members with the right layout were accepted (every order of the three requests)
        from droplets import droplets as dm

        K = getattr(dm, cls)
        pos = np.zeros(dims[0])
        mk = lambda n: K(pos + (np.array([0.0, 0.0, float(n)]) if cls == "PerturbedDroplet3DAxisSym" else float(n)), 1.0, 0.1, [0.1] * n)
        for first_n, other_n in ((2, 4), (4, 2), (1, 3), (3, 2)):
            for accepted_before in (0, 1, 2):
                case = {"explorer": "summary-classes", "cls": cls, "reject": [first_n, other_n, accepted_before]}
                ctx.begin(case)
                tags = {"explorer": "summary-classes", "cls": cls, "op": "appendF-other-mode-count"}
                E = Emulsion([mk(first_n)])
                for _ in range(accepted_before):
                    E.append(mk(first_n), force_consistency=True)
                before = [val(d) for d in E]
                try:
                    E.append(mk(other_n), force_consistency=True)
                    raised = False
                except Exception:  # noqa
                    raised = True
                ctx.op(accepted_before + 1)
                ctx.check("C20.reject", raised and [val(d) for d in E] == before, {"raised": raised, "members": len(E), "modes": [first_n, other_n], "accepted_before": accepted_before}, tags)
                try:
                    E2 = Emulsion([mk(first_n)])
                    E2.extend([mk(first_n), mk(other_n)], force_consistency=True)
                    raised = False
                except Exception:  # noqa
                    raised = True
                ctx.check("C20.reject", raised, {"what": "extend", "modes": [first_n, other_n]}, tags)
    for dim in dims:
        for rname, radii in SUMMARY_RADII.items():
            for n in (0, 1, 2, 4):
                for how in ("ctor", "append", "extend", "copy", "add", "slice", "pickle", "deepcopy"):
                    case = {"explorer": "summary-classes", "cls": cls, "dim": dim, "radii": rname, "n": n, "how": how}
                    ctx.begin(case)
                    tags = {"explorer": "summary-classes", "cls": cls, "how": how}
                    try:
                        mem = summary_members(cls, dim, radii[:n])
                        if how == "ctor":
                            E = Emulsion(mem)
                        elif how == "append":
                            E = Emulsion()
                            for d in mem:
                                E.append(d)
                        elif how == "extend":
                            E = Emulsion()
                            E.extend(mem)
                        elif how == "copy":
                            E = Emulsion(mem).copy()
                        elif how == "add":
                            E = Emulsion(mem[: n // 2]) + Emulsion(mem[n // 2:])
                        elif how == "slice":
                            E = Emulsion(mem + summary_members(cls, dim, [9.0]))[:n]
                        elif how == "pickle":
                            E = pickle.loads(pickle.dumps(Emulsion(mem)))
                        else:
                            E = copy.deepcopy(Emulsion(mem))
                        ctx.op()
                        try:
                            vols = [float(d.volume) for d in mem]
                        except NotImplementedError:
                            vols = None
                        if cls == "PerturbedDroplet2D":  # own formula as well: pi R^2 (1 + sum eps^2 / 2)
                            own = [PI * d.radius**2 * (1 + float(np.sum(np.asarray(d.amplitudes) ** 2)) / 2) for d in mem]
                            ctx.check("C20.summary", all(abs(a - b) <= 1e-12 * max(1.0, abs(b)) for a, b in zip(vols, own)), {"what": "member volume vs own formula", "got": vols, "want": own}, tags)
                        radii_m = [float(d.radius) for d in mem]
                        for incl in (True, False):
                            keep = [i for i in range(n) if incl or radii_m[i] > 0]
                            try:
                                st = E.get_size_statistics(incl_vanished=incl)
                            except NotImplementedError:
                                ctx.check("C20.summary", vols is None, {"what": "size statistics raise although every member has a volume"}, tags)
                                continue
                            ok = st["count"] == len(keep)
                            if n and keep:
                                rr = [radii_m[i] for i in keep]
                                ok = ok and abs(st["radius_mean"] - np.mean(rr)) <= 1e-12 * max(1, abs(np.mean(rr))) and abs(st["radius_std"] - np.std(rr)) <= 1e-12 * max(1, abs(np.mean(rr)))
                                if vols is not None:
                                    vv = [vols[i] for i in keep]
                                    ok = ok and abs(st["volume_mean"] - np.mean(vv)) <= 1e-12 * max(1, abs(np.mean(vv))) and abs(st["volume_std"] - np.std(vv)) <= 1e-12 * max(1, abs(np.mean(vv)))
                                ok = ok and all(math.isfinite(float(v)) for v in st.values())
                            ctx.check("C20.summary", bool(ok), {"what": "size_statistics", "incl_vanished": incl, "got": {k: float(v) for k, v in st.items()}, "member_radii": radii_m, "member_volumes": vols}, tags)
                        if vols is not None:
                            tv = E.total_droplet_volume
                            ctx.check("C20.summary", abs(tv - sum(vols)) <= 1e-12 * max(1.0, sum(vols)), {"what": "total_volume", "got": tv, "want": sum(vols)}, tags)
                        if n:
                            bb = np.asarray(E.bbox.bounds)
                            mb = [np.asarray(d.bbox.bounds) for d in mem]
                            lo, hi = np.min([b[:, 0] for b in mb], axis=0), np.max([b[:, 1] for b in mb], axis=0)
                            ctx.check("C20.summary", bool(np.allclose(bb[:, 0], lo, rtol=1e-15, atol=1e-12) and np.allclose(bb[:, 1], hi, rtol=1e-15, atol=1e-12)), {"what": "bbox", "got": bb, "lo": lo, "hi": hi}, tags)
                            ctx.check("C20.summary", len(E) == n and E.dim == dim, {"what": "len/dim"}, tags)
                            ctx.check("C20.content", [val(d) for d in E] == [val(d) for d in mem], {"what": "members after " + how}, tags)
                        ctx.count("summaries-of-perturbed-classes" if cls.startswith("Perturbed") else "summaries-of-spherical-classes")
                    except Exception as e:  # noqa
                        ctx.check("C20.no-raise", False, {"case": case, "exc": repr(e)[:300]}, tags, case=case)
    ctx.states += ctx.cases


def blocks(tier, seed):
    depth = 5 if tier == "thorough" else 4
    out = [{"explorer": "summary-classes", "cls": c} for c in SUMMARY_CLASSES]
    for kind, (_, ops) in WORLDS.items():
        for op in ops:
            out.append({"explorer": kind, "first": op, "depth": depth})
    return out


def run_block(block, ctx):
    import signal

    if block["explorer"] == "summary-classes":
        return run_summary_classes(block, ctx)
    kind, depth = block["explorer"], block["depth"]
    ops = WORLDS[kind][1]
    seen = set()
    frontier = []
    ctx.begin({"explorer": kind, "hist": [block["first"]]})
    c = step(kind, [], block["first"], ctx)
    if c is None:
        return
    seen.add(c)
    frontier = [[block["first"]]]
    for level in range(2, depth + 1):
        nxt = []
        for hist in frontier:
            for op in ops:
                case = {"explorer": kind, "hist": hist + [op]}
                ctx.cases += 1
                ctx._last = ctx._cur = case
                signal.alarm(60)
                c = step(kind, hist, op, ctx)
                signal.alarm(0)
                if c is None:
                    ctx.count("transitions-not-enabled-or-failed")
                    continue
                if any(o.startswith(("mut", "remove", "merge", "link", "clear")) for o in hist + [op]):
                    ctx.nontrivial += 1
                if c not in seen:
                    seen.add(c)
                    nxt.append(hist + [op])
        frontier = nxt
        ctx.count(f"frontier-depth-{level}", len(frontier))
    ctx.states += len(seen)


def run_case(case, ctx):
    """replay of a single history (used by --replay)"""
    if case.get("explorer") == "summary-classes":
        return run_summary_classes({"cls": case["cls"]}, ctx)
    hist = case["hist"]
    step(case["explorer"], hist[:-1], hist[-1], ctx)


def expected_positive(tier):
    return ["C20.content", "C20.aligned", "C20.no-alias", "C20.reject", "C20.summary", "C20.no-raise", "bulk-additions-rejected", "summaries-of-perturbed-classes"]
