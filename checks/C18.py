"""C18 - detection depends on the image only through the documented threshold.

Space (kind I): ALL images with values in a dyadic alphabet on small grids of every family x every threshold rule
(numeric, extrema, auto, mean, otsu) x exactly representable positive affine intensity maps x minimal radii.
Reference: thresholds computed from their definitions (Otsu: direct between-class variance over every split of a
256-bin histogram), binary image 'data > T', then the library's own mask routine (decided separately by C02).
"""
import itertools

import numpy as np

from mcx import geom

PID = "C18"
RULE = (
    "every image over a 3-4 letter dyadic alphabet on the declared grids (Cartesian 1-2 dim with all periodicity masks, polar, spherical, "
    "cylindrical) x all threshold rules x all affine maps (a,b) x minimal radii; images in which a cell lies within 1e-9*range of the "
    "reference threshold are screened (only possible for 'mean'/'otsu'); non-trivial = non-constant image"
    "; annular polar / spherical grids with an own radial model of the result; all analyses of a block run on one grid object (cylindrical dz = 0.8); exact affine maps include 2^-30 and (2^-12, 1024); DropletTracker and EmulsionTimeCourse.from_storage are driven as further entry points on all ordered pairs of a 24-image catalogue x affine maps"
)
ASSUMPTIONS = [
    "dyadic values and dyadic affine maps, so a*x+b is exact and '>' has no rounding knife-edge",
    "the located droplets for a given binary image are taken from the library's locate_droplets_in_mask (property C02 decides that routine)",
    "Otsu is undefined for constant data (excluded); ties of the two best splits within 1e-12 accept either",
]
ALPH4 = [0.0, 0.25, 0.5, 1.0]
ALPH3 = [0.0, 0.25, 1.0]
NUMERIC = [0.125, 0.25, 0.5]
RULES = ["extrema", "auto", "mean", "otsu"]
AFFINE = [(1.0, 0.0), (2.0, 0.0), (0.5, -1.0), (4.0, 3.0), (2.0**-30, 0.0), (2.0**-12, 1024.0)]  # tiny contrast / small contrast on a large offset
MINR = [0.4, 0.6, 1.0]
AFFINE_QUICK = [(1.0, 0.0), (4.0, 3.0), (2.0**-30, 0.0), (2.0**-12, 1024.0)]


def cart(shape, mask):
    return {"kind": "cart", "shape": list(shape), "dx": [1.0] * len(shape), "origin": [0.0] * len(shape), "periodic": list(mask)}


def blocks(tier, seed):
    out = []
    alph3 = [ALPH3, [0.0, 0.5, 1.0], [0.25, 0.5, 1.0]][seed % 3]

    def add(g, alph, npre=0):
        for pre in itertools.product(range(len(alph)), repeat=npre):
            out.append({"grid": g, "alph": alph, "prefix": list(pre), "tier": tier})

    for n in range(1, 6):
        for m in (False, True):
            if n == 5 and not m and tier != "thorough":
                continue
            add(cart((n,), (m,)), ALPH4, 1 if n >= 4 else 0)
    for mask in itertools.product((False, True), repeat=2):
        add(cart((2, 3), mask), alph3, 1)
    add({"kind": "polar", "n": 4, "R": 4.0}, ALPH3)
    add({"kind": "sph", "n": 4, "R": 2.0}, ALPH3)
    add({"kind": "polar", "n": 6, "R": 3.0}, [0.0, 1.0])
    add({"kind": "polar", "n": 4, "R": 5.0, "r0": 1.0}, ALPH3)  # annular grids
    add({"kind": "sph", "n": 4, "R": 4.5, "r0": 2.5}, ALPH3)
    for pz in (False, True):
        add({"kind": "cyl", "shape": [2, 3], "R": 2.0, "z": [0.0, 2.4], "periodic_z": pz}, alph3, 1)  # dz = 0.8
    add(cart((8,), (True,)), [0.0, 1.0], 1)
    # the droplet tracker is a second entry point: every frame must be analysed with ITS OWN threshold
    for rule in RULES + [0.25]:
        for part in range(4):
            out.append({"tracker": True, "rule": rule, "tier": tier, "part": part})
    # histories across dimensions: equal-volume clusters located on grids of different dimension one after the other (fresh fork)
    out.append({"dimseq": True})
    # the size filter also holds for refined results: smooth droplets x thresholds x a lattice of minimal radii around the droplet radius
    for gk in ("cart2", "cart1", "polar", "cyl"):
        for thr in (0.125, 0.25, 0.5, 0.75, "extrema", "mean"):
            out.append({"refined_filter": True, "grid": gk, "threshold": thr})
    if tier == "thorough":
        add(cart((6,), (True,)), ALPH4, 2)
        add(cart((6,), (False,)), ALPH4, 2)
        for mask in itertools.product((False, True), repeat=2):
            add(cart((3, 3), mask), alph3, 3)
        add(cart((8,), (True,)), ALPH3, 3)
        add({"kind": "sph", "n": 6, "R": 3.0}, ALPH3, 1)
        for pz in (False, True):
            add({"kind": "cyl", "shape": [3, 3], "R": 3.0, "z": [-1.0, 2.0], "periodic_z": pz}, ALPH3, 2)
    return out


def tracker_images():
    """24 images of 5 cells over the 4-letter alphabet (fixed catalogue: every image with exactly two distinct neighbours ... kept simple:
    all images whose cell pattern is a rotation-minimal word of the form x,y,z,0,0 with x >= y)"""
    out = []
    for x, y, z in itertools.product(range(4), repeat=3):
        if x >= y and (x or y or z) and len(out) < 24:
            out.append([ALPH4[x], ALPH4[y], ALPH4[z], 0.0, 0.0])
    return out


DIMSEQ = [((14,), 12), ((4, 4), 12), ((3, 3, 2), 12), ((9,), 8), ((3, 3), 8), ((2, 2, 2), 8)]


def cases(block):
    if block.get("dimseq"):
        for i, j in itertools.permutations(range(len(DIMSEQ)), 2):
            for minr in (0.0, 1.6):
                yield {"dimseq": [i, j], "minr": minr}
        return
    if block.get("refined_filter"):
        for R, w in ((4.0, 1.0), (6.0, 2.0), (5.0, 0.5)):
            for k in range(-5, 8):
                for modes in ((0, 2) if block["grid"] in ("cart2", "polar") else (0,)):
                    yield {"refined_filter": True, "grid": block["grid"], "threshold": block["threshold"], "R": R, "w": w, "minr": R + 0.5 * k + 0.13, "modes": modes}
        return
    if block.get("tracker"):
        imgs = tracker_images()
        maps = [(1.0, 0.0), (0.5, -1.0), (4.0, 3.0), (2.0**-12, 1024.0)]
        for i, j in itertools.product(range(len(imgs)), repeat=2):
            if i % 4 != block.get("part", i % 4):
                continue
            for m in range(len(maps)):
                yield {"tracker": True, "rule": block["rule"], "frames": [[imgs[i], [1.0, 0.0]], [imgs[j], list(maps[m])], [imgs[i], list(maps[(m + 1) % len(maps)])]]}
        return
    g, alph, pre = block["grid"], block["alph"], block["prefix"]
    shape = g["shape"] if "shape" in g else [g["n"]]
    n = int(np.prod(shape))
    for rest in itertools.product(range(len(alph)), repeat=n - len(pre)):
        yield {"grid": g, "alph": alph, "cells": list(pre) + list(rest), "tier": block.get("tier", "quick")}


def otsu_ref(data):
    """between-class variance by definition over every split of the 256-bin histogram; returns all maximising bin centres"""
    x = np.asarray(data, float).ravel()
    lo, hi = x.min(), x.max()
    edges = np.linspace(lo, hi, 257)
    centres = (edges[1:] + edges[:-1]) / 2
    counts, _ = np.histogram(x, bins=256, range=(lo, hi))
    var = np.full(255, -1.0)
    for i in np.flatnonzero(counts)[:-1]:  # variance only changes at occupied bins; evaluate the definition on every split below
        pass
    cw = np.cumsum(counts)
    cm = np.cumsum(counts * centres)
    for i in range(255):
        w1, w2 = cw[i], cw[-1] - cw[i]
        if w1 == 0 or w2 == 0:
            continue
        m1 = cm[i] / w1
        m2 = (cm[-1] - cm[i]) / w2
        var[i] = w1 * w2 * (m1 - m2) ** 2
    best = var.max()
    ties = np.flatnonzero(np.abs(var - best) <= 1e-12 * best)
    return [float(centres[i]) for i in ties]


def key(em):
    return [(type(d).__name__, tuple(float(x) for x in d.position), float(d.radius)) for d in em]


def run_case(case, ctx):
    from pde import ScalarField

    from droplets import locate_droplets
    from droplets.image_analysis import locate_droplets_in_mask, threshold_otsu

    if case.get("tracker"):
        return run_tracker(case, ctx)
    if case.get("dimseq"):
        from mcx import core

        def one(k):
            shape, ncell = DIMSEQ[k]
            data = np.zeros(int(np.prod(shape)))
            data[:ncell] = 1.0
            grid = geom.make_grid(cart(shape, [False] * len(shape)))
            return key(locate_droplets(ScalarField(grid, data.reshape(shape)), threshold=0.5, minimal_radius=case["minr"]))

        i, j = case["dimseq"]
        alone = core.in_fork(lambda: one(j))
        seq = core.in_fork(lambda: (one(i), one(j))[1])
        ctx.op(3)
        ctx.count("equal-volume-clusters-on-grids-of-different-dimension")
        ctx.check("C18.same-as-mask", seq == alone, {"what": "result depends on an earlier analysis on another grid", "first": DIMSEQ[i], "second": DIMSEQ[j], "alone": alone, "in_sequence": seq}, {"history": "dimension-sequence"})
        return
    if case.get("refined_filter"):
        from droplets import DiffuseDroplet, Emulsion

        gk, R, w, minr = case["grid"], case["R"], case["w"], case["minr"]
        g = {"cart2": {"kind": "cart", "shape": [30, 28], "dx": [1.0, 1.0], "origin": [0.0, 0.0], "periodic": [True, False]}, "cart1": cart((40,), (False,)),
             "polar": {"kind": "polar", "n": 24, "R": 24.0}, "cyl": {"kind": "cyl", "shape": [14, 36], "R": 14.0, "z": [-4.0, 32.0], "periodic_z": False}}[gk]
        grid = geom.make_grid(g)
        c = {"cart2": [14.3, 13.8], "cart1": [19.4], "polar": [0.0, 0.0], "cyl": [0.0, 0.0, 13.7]}[gk]
        field = Emulsion([DiffuseDroplet(np.array(c), R, w)]).get_phasefield(grid)
        tags = {"grid": g["kind"], "rule": "refined-filter", "threshold": str(case["threshold"])}
        try:
            plain = locate_droplets(field, threshold=case["threshold"], minimal_radius=minr, modes=case["modes"])
            em = locate_droplets(field, threshold=case["threshold"], minimal_radius=minr, refine=True, modes=case["modes"])
            free = locate_droplets(field, threshold=case["threshold"], minimal_radius=0, refine=True, modes=case["modes"])
            ctx.op(3)
        except Exception as e:  # noqa
            ctx.check("C18.no-raise", False, {"exc": repr(e)[:300]}, tags)
            return
        ctx.check("C18.filter", all(d.radius > minr for d in em) and all(d.radius > minr for d in plain), {"minimal_radius": minr, "refined": [float(d.radius) for d in em], "unrefined": [float(d.radius) for d in plain]}, tags)
        if len(plain) and any(d.radius <= minr for d in free):
            ctx.count("cluster-above-but-refined-droplet-below-the-minimal-radius")
        if len(em):
            ctx.count("refined-results-passing-the-filter")
        return
    g, alph = case["grid"], case["alph"]
    shape = tuple(g["shape"]) if "shape" in g else (g["n"],)
    base = np.array([alph[i] for i in case["cells"]], float).reshape(shape)
    grid = geom.make_grid(g, share=True)  # one grid object per worker process and grid: all analyses of a block run on it
    tags = {"grid": g["kind"]}
    const = np.ptp(base) == 0
    if not const:
        ctx.count("non-constant-image")

    def reference(data, T, minr):
        mask = ScalarField(grid, data > T, dtype=bool)
        em = locate_droplets_in_mask(mask)
        ctx.op()
        return [k for k in key(em) if k[2] > minr], key(em)

    results = {}
    for a, b in (AFFINE if case.get("tier") == "thorough" else AFFINE_QUICK):
        data = a * base + b
        field = ScalarField(grid, data)
        rng = float(np.ptp(data))
        for rule in RULES + NUMERIC:
            tags2 = dict(tags, rule=rule if isinstance(rule, str) else "numeric")
            if rule in ("extrema", "auto"):
                Ts = [(data.min() + data.max()) / 2]
            elif rule == "mean":
                Ts = [float(np.mean(data))]
            elif rule == "otsu":
                if const:
                    continue
                Ts = otsu_ref(data)
                if len(Ts) > 1:
                    ctx.count("otsu-tied-splits")
                t_lib = threshold_otsu(data)
                ctx.op()
                ctx.check("C18.otsu-definition", any(abs(t_lib - T) <= 1e-12 * max(1.0, abs(T)) for T in Ts), {"got": t_lib, "want": Ts, "data": data}, tags2)
            else:
                Ts = [a * rule + b]
            arg = rule if isinstance(rule, str) else a * rule + b
            if rule in ("mean", "otsu") and any(np.any(np.abs(data - T) <= 1e-9 * max(rng, 1e-300)) for T in Ts):
                ctx.skip("knife-edge:cell-on-threshold")
                continue
            image = field.data.tobytes()
            em = locate_droplets(field, threshold=arg)
            ctx.op()
            ctx.check("C18.image-unmodified", field.data.tobytes() == image, None, tags2)
            got = key(em)
            uniq = {}
            for T in Ts:  # tied thresholds that give the same binary image need one reference run only
                uniq.setdefault((data > T).tobytes(), T)
            refs = [reference(data, T, 0.0)[0] for T in uniq.values()]
            ctx.check("C18.same-as-mask", any(got == r for r in refs), {"rule": rule, "affine": [a, b], "T": Ts, "got": got, "want": refs[0], "data": data}, tags2)
            if g["kind"] in ("polar", "sph") and len(Ts) == 1:
                # radially symmetric grids: own model of the result (cells above the threshold from the innermost one outwards)
                above = data > Ts[0]
                k = int(np.argmin(above)) if not above.all() else len(above)
                dr = geom.radial_spacing(g)
                want_r = [g.get("r0", 0.0) + k * dr] if above[0] else []
                ok = len(got) == len(want_r) and all(abs(x[2] - w) <= 1e-12 * max(1.0, w) and not any(x[1]) for x, w in zip(got, want_r))
                ctx.check("C18.own-radial-model", ok, {"rule": rule, "got": got, "want_radius": want_r, "data": data}, tags2)
                if g.get("r0"):
                    ctx.count("annular-grids")
            if (a, b) == AFFINE[0] and g["kind"] == "cart" and rule in ("extrema", 0.25):
                # the result is a geometric object: measured in another length unit (micrometre-sized / huge cells) it is the same
                # set of droplets, positions and radii scaled by the unit - and in particular the same NUMBER of droplets
                for unit in (1e-6, 1e5):
                    gu = dict(g, dx=[d * unit for d in g["dx"]], origin=[o * unit for o in g["origin"]])
                    emu = locate_droplets(ScalarField(geom.make_grid(gu), data), threshold=arg)
                    ctx.op()
                    gotu = key(emu)
                    ok = len(gotu) == len(got) and all(abs(x[2] - unit * y[2]) <= 1e-9 * unit * y[2] and np.allclose(x[1], unit * np.asarray(y[1]), rtol=1e-9, atol=1e-9 * unit) for x, y in zip(gotu, got))
                    ctx.check("C18.unit-covariance", bool(ok), {"unit": unit, "rule": rule, "got": gotu, "unit_grid": got}, tags2)
            if (a, b) == AFFINE[0]:
                results[str(rule)] = got
            else:
                if len(Ts) == 1:
                    ctx.check("C18.affine", got == results.get(str(rule), got), {"rule": rule, "affine": [a, b], "got": got, "base": results.get(str(rule))}, tags2)
        # radius filter (two rules, all minimal radii) on the mapped image
        for rule in (("extrema", 0.25) if (a, b) in (AFFINE[0], AFFINE[3]) else ()):
            arg = rule if isinstance(rule, str) else a * rule + b
            T = (data.min() + data.max()) / 2 if rule == "extrema" else a * rule + b
            for minr in MINR:
                em = locate_droplets(field, threshold=arg, minimal_radius=minr)
                ctx.op()
                got = key(em)
                want, allc = reference(data, T, minr)
                ctx.check("C18.filter", all(k[2] > minr for k in got) and got == want, {"rule": rule, "minimal_radius": minr, "got": got, "candidates": allc}, dict(tags, rule="filter"))
                if len(want) < len(allc):
                    ctx.count("filter-removed-some")
                if want:
                    ctx.count("filter-kept-some")


def run_tracker(case, ctx):
    from pde import ScalarField

    from droplets import DropletTracker
    from droplets.image_analysis import locate_droplets_in_mask

    g = cart((5,), (True,))
    grid = geom.make_grid(g)
    rule = case["rule"]
    tags = {"grid": "cart", "rule": rule if isinstance(rule, str) else "numeric", "entry": "tracker"}
    frames = [a * np.array(img, float) + b for img, (a, b) in case["frames"]]
    if isinstance(rule, float):
        # a numeric threshold is not mapped by the tracker: keep the frames on the standard scale
        frames = [np.array(img, float) for img, _ in case["frames"]]
    try:
        tr = DropletTracker(1, threshold=rule, minimal_radius=0.0)
        tr.initialize(ScalarField(grid, frames[0]))
        for t, data in enumerate(frames):
            tr.handle(ScalarField(grid, data), float(t))
            ctx.op()
        # third entry point: the offline analysis of a stored sequence
        from pde import MemoryStorage

        from droplets import EmulsionTimeCourse

        st = MemoryStorage()
        st.start_writing(ScalarField(grid, frames[0]))
        for t, data in enumerate(frames):
            st.append(ScalarField(grid, data), float(t))
        etc = EmulsionTimeCourse.from_storage(st, threshold=rule, minimal_radius=0.0, progress=False)
        ctx.op(len(frames))
    except Exception as e:  # noqa
        ctx.check("C18.same-as-mask", False, {"exc": repr(e)[:300]}, tags)
        return
    for t, data in enumerate(frames):
        if np.ptp(data) == 0 and rule == "otsu":
            continue
        if rule in ("extrema", "auto"):
            Ts = [(data.min() + data.max()) / 2]
        elif rule == "mean":
            Ts = [float(np.mean(data))]
        elif rule == "otsu":
            Ts = otsu_ref(data)
        else:
            Ts = [rule]
        if any(np.any(np.abs(data - T) <= 1e-9 * max(float(np.ptp(data)), 1e-300)) for T in Ts):
            ctx.skip("knife-edge:cell-on-threshold")
            continue
        got = key(tr.data[t])
        uniq = {}
        for T in Ts:  # tied thresholds that give the same binary image need one reference run only
            uniq.setdefault((data > T).tobytes(), T)
        refs = [[k for k in key(locate_droplets_in_mask(ScalarField(grid, data > T, dtype=bool))) if k[2] > 0.0] for T in uniq.values()]
        ctx.check("C18.same-as-mask", any(got == r for r in refs), {"frame": t, "rule": rule, "got": got, "want": refs[0], "data": data}, tags)
        got2 = key(etc[t])
        ctx.check("C18.same-as-mask", any(got2 == r for r in refs), {"frame": t, "rule": rule, "got": got2, "want": refs[0], "data": data}, dict(tags, entry="from_storage"))
        ctx.count("tracker-frames")


def expected_positive(tier):
    return ["C18.same-as-mask", "C18.affine", "C18.filter", "C18.otsu-definition", "non-constant-image", "filter-removed-some", "filter-kept-some", "tracker-frames", "C18.own-radial-model", "annular-grids", "cluster-above-but-refined-droplet-below-the-minimal-radius", "refined-results-passing-the-filter", "C18.unit-covariance", "equal-volume-clusters-on-grids-of-different-dimension"]
