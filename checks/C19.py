"""C19 - the requested droplet model determines class and data layout of every result.

Space (kind I, finite and enumerated completely): grid in {Cartesian 1/2/3-D x every periodicity mask, polar, spherical,
cylindrical +-periodic z} x modes in {0..4} x width in {None, 0.0, value} x refine in {False, True} x threshold rule x
image in {empty, one droplet, two droplets / droplet + one-cell speck}.
"""
import itertools

import numpy as np

from mcx import geom

PID = "C19"
RULE = (
    "complete product grid family/dimension/periodicity x modes 0..4 x width {None, 0.0, 1.3} x refine x threshold rule {0.5, auto, mean, otsu} "
    "x image catalogue {empty, one droplet, two droplets, droplet + single-cell speck}; non-trivial = at least one droplet located"
    "; prelude histories (amplitude-less / many-mode / other-dimension droplets constructed first, or a perturbed-shape request on a grid of each of five families made first; fresh fork); thorough: further grids of every family, modes to 6, worker processes"
)
ASSUMPTIONS = [
    "images are rendered diffuse droplets (width 1 cell) on 9-16 cell grids; class/layout clauses do not depend on the image beyond the droplet count",
    "refinement uses the library defaults; only class, layout, amplitude count, carried width and dimension are judged here",
]
WIDTHS = [None, 0.0, 1.3]
RULES = [0.5, "auto", "mean", "otsu"]
IMAGES = ["empty", "one", "two", "speck"]


def grids():
    out = []
    for mask in itertools.product((False, True), repeat=1):
        out.append({"kind": "cart", "shape": [16], "dx": [1.0], "origin": [0.0], "periodic": list(mask)})
    for mask in itertools.product((False, True), repeat=2):
        out.append({"kind": "cart", "shape": [12, 12], "dx": [1.0, 1.0], "origin": [0.0, 0.0], "periodic": list(mask)})
    for mask in itertools.product((False, True), repeat=3):
        out.append({"kind": "cart", "shape": [9, 9, 9], "dx": [1.0, 1.0, 1.0], "origin": [0.0, 0.0, 0.0], "periodic": list(mask)})
    out.append({"kind": "polar", "n": 12, "R": 12.0})
    out.append({"kind": "sph", "n": 12, "R": 12.0})
    for pz in (False, True):
        out.append({"kind": "cyl", "shape": [8, 16], "R": 8.0, "z": [0.0, 16.0], "periodic_z": pz})
    # periodic cylinders whose bounds are not exactly representable (the period carries round-off); used with the 'seam' image
    for z in ([0.3, 6.3], [-0.7, 5.3], [0.1, 5.6]):
        out.append({"kind": "cyl", "shape": [8, 20], "R": 8.0, "z": z, "periodic_z": True, "seam": True})
    return out


def extra_grids():
    """thorough tier: further members of every family (anisotropic, shifted origin, annular, z range excluding 0)"""
    out = [{"kind": "cart", "shape": [14, 11], "dx": [0.8, 1.0], "origin": [-3.0, 2.0], "periodic": [True, False]},
           {"kind": "cart", "shape": [24], "dx": [0.5], "origin": [-3.0], "periodic": [True]},
           {"kind": "cart", "shape": [9, 10, 8], "dx": [1.0, 0.9, 1.1], "origin": [1.0, -4.0, 0.0], "periodic": [False, True, False]},
           {"kind": "polar", "n": 14, "R": 13.0, "r0": 1.0}, {"kind": "sph", "n": 14, "R": 13.0, "r0": 1.0},
           {"kind": "cyl", "shape": [8, 16], "R": 8.0, "z": [3.0, 19.0], "periodic_z": True},
           {"kind": "cyl", "shape": [8, 17], "R": 6.0, "z": [-20.0, -3.0], "periodic_z": False}]
    return out


def blocks(tier, seed):
    out = []
    gs = grids() + (extra_grids() if tier == "thorough" else [])
    for gi, g in enumerate(gs):
        for modes in range(7 if tier == "thorough" else 5):
            for refine in (False, True):
                out.append({"grid": g, "modes": modes, "refine": refine, "tier": tier})
    return out


PRELUDES = ["amplitude-less-instances", "many-mode-instances", "other-dimension"]
# earlier REQUESTS in the same process: a perturbed-shape analysis on a grid of each family (every ordered pair family -> request)
REQUEST_PRELUDES = {
    "request:cart2": {"kind": "cart", "shape": [12, 12], "dx": [1.0, 1.0], "origin": [0.0, 0.0], "periodic": [True, False]},
    "request:cart3": {"kind": "cart", "shape": [9, 9, 9], "dx": [1.0, 1.0, 1.0], "origin": [0.0, 0.0, 0.0], "periodic": [False, True, False]},
    "request:polar": {"kind": "polar", "n": 12, "R": 12.0},
    "request:sph": {"kind": "sph", "n": 12, "R": 12.0},
    "request:cyl": {"kind": "cyl", "shape": [8, 16], "R": 8.0, "z": [0.0, 16.0], "periodic_z": False},
}


def prelude(name):
    """what a caller may have done earlier in the same process (e.g. to draw a test image): construct droplets of the same classes"""
    from droplets.droplets import DiffuseDroplet, PerturbedDroplet2D, PerturbedDroplet3D, PerturbedDroplet3DAxisSym, SphericalDroplet

    if name in REQUEST_PRELUDES:
        from droplets import locate_droplets

        locate_droplets(field_for(REQUEST_PRELUDES[name], "one")[1], modes=3, interface_width=0.7)
    elif name == "amplitude-less-instances":
        PerturbedDroplet2D(np.zeros(2), 1.0)
        PerturbedDroplet3D(np.zeros(3), 1.0)
        PerturbedDroplet3DAxisSym(np.zeros(3), 1.0)
        DiffuseDroplet(np.zeros(2), 1.0)
    elif name == "many-mode-instances":
        PerturbedDroplet2D(np.zeros(2), 1.0, 0.5, np.zeros(6))
        PerturbedDroplet3D(np.zeros(3), 1.0, 0.5, np.zeros(8))
        PerturbedDroplet3DAxisSym(np.zeros(3), 1.0, 0.5, np.zeros(5))
    else:
        SphericalDroplet(np.zeros(1), 1.0)
        SphericalDroplet(np.zeros(2), 1.0)
        SphericalDroplet(np.zeros(3), 1.0)
        DiffuseDroplet(np.zeros(1), 1.0, 0.3)
        DiffuseDroplet(np.zeros(3), 1.0, 0.3)


def cases(block):
    thorough = block.get("tier") == "thorough"
    if not block["refine"]:
        # histories: the same request after other droplets were constructed in the process (fresh fork each)
        for pre in PRELUDES + list(REQUEST_PRELUDES):
            for w in ((None, 1.3) if pre in PRELUDES else (None,)):
                yield {"grid": block["grid"], "modes": block["modes"], "refine": False, "width": w, "rule": 0.5, "image": "two", "prelude": pre}
    # other numeric forms of the image data (the request, not the storage type of the image, determines class and layout)
    for form in ("float32", "bool", "uint8", "int64", "fortran", "readonly"):
        for w in (None, 1.3):
            yield {"grid": block["grid"], "modes": block["modes"], "refine": block["refine"], "width": w, "rule": 0.5, "image": "two", "form": form}
    for w in (WIDTHS + [0.4] if thorough else WIDTHS):
        for rule in (RULES + ["extrema", 0.3] if thorough else RULES):
            for img in (IMAGES if not block["grid"].get("seam") else ["seam"]):
                for nproc in ((1, 2) if (thorough and block["refine"]) else (1,)):
                    c = {"grid": block["grid"], "modes": block["modes"], "refine": block["refine"], "width": w, "rule": rule, "image": img}
                    if nproc > 1:
                        c["nproc"] = nproc
                    yield c


_F = {}


def field_for(g, img):
    from pde import ScalarField

    from droplets import DiffuseDroplet, Emulsion

    k = (geom.core_key(g) if hasattr(geom, "core_key") else repr(sorted(g.items())), img)
    if k in _F:
        return _F[k]
    grid = geom.make_grid(g)
    dim = grid.dim
    kind = g["kind"]
    if img == "seam":
        # a body of revolution centred EXACTLY on the periodic z boundary (mirror-symmetric about it)
        data = np.zeros(grid.shape)
        data[:3, :3] = 1.0
        data[:3, -3:] = 1.0
        data[:2, 3] = data[:2, -4] = 0.6
        n = 1
    elif img == "empty":
        data = np.zeros(grid.shape)
        n = 0
    else:
        if kind == "cart":
            N = g["shape"][0]
            L = [n * d for n, d in zip(g["shape"], g["dx"])]
            o = g["origin"]
            c1 = [o[a] + L[a] * 0.33 + 0.2 for a in range(dim)]
            c2 = [o[0] + L[0] * 0.75 + 0.1] + [o[a] + L[a] * 0.33 + 0.2 for a in range(1, dim)]
            R1, R2 = (2.6, 1.9) if dim > 1 else (2.6, 1.8)
            if dim == 3:
                R1, R2 = 2.4, 1.0
            drops = [DiffuseDroplet(c1, R1, 1.0)]
            if img == "two":
                drops.append(DiffuseDroplet(c2, R2, 0.8))
            n = len(drops)
        elif kind in ("polar", "sph"):
            drops = [DiffuseDroplet([0.0] * dim, 5.3, 1.0)]
            n = 1
        else:
            z0 = g["z"][0]
            drops = [DiffuseDroplet([0.0, 0.0, z0 + 5.2], 3.3, 1.0)]
            if img == "two":
                drops.append(DiffuseDroplet([0.0, 0.0, z0 + 12.1], 2.2, 0.8))
            n = len(drops)
        data = Emulsion(drops).get_phasefield(grid).data.copy()
        if img == "speck":
            # a single bright cell far away from the droplet (on the axis for cylindrical grids)
            if kind == "cart":
                idx = tuple(n_ - 2 for n_ in g["shape"])
            elif kind == "cyl":
                idx = (0, g["shape"][1] - 3)
            else:
                idx = None
            if idx is not None:
                data[idx] = 1.0
                n = 2
    _F[k] = (grid, ScalarField(grid, data), n)
    return _F[k]


def run_case(case, ctx):
    from droplets import DiffuseDroplet, SphericalDroplet, locate_droplets
    from droplets.droplets import PerturbedDroplet2D, PerturbedDroplet3D, PerturbedDroplet3DAxisSym

    if case.get("prelude") and not case.get("_in_fork"):
        from mcx import core

        def seq(c, sub):
            prelude(c["prelude"])
            run_case(dict(c, _in_fork=True), sub)

        ctx.count("requests-after-a-prelude")
        return core.run_sequence_in_fork(seq, [case], ctx, tag={"history": case["prelude"]})
    g, modes, refine, w, rule, img = case["grid"], case["modes"], case["refine"], case["width"], case["rule"], case["image"]
    grid, field, nexp = field_for(g, img)
    form = case.get("form")
    if form:
        from pde import ScalarField

        ctx.count("images-in-other-data-forms")
        if form in ("float32",):
            field = ScalarField(grid, field.data.astype(np.float32), dtype=np.float32)
        elif form in ("bool", "uint8", "int64"):
            field = ScalarField(grid, (field.data > 0.5).astype(form), dtype=form)
        elif form == "fortran":
            field = ScalarField(grid, field.data)
            field.data = np.asfortranarray(field.data)
        else:
            field = ScalarField(grid, field.data)
            field.data.flags.writeable = False
    dim = grid.dim
    tags = {"grid": g["kind"], "dim": dim, "modes": modes, "refine": refine, "width": "none" if w is None else ("zero" if w == 0 else "value")}
    if modes > 0 and dim == 1:
        try:
            locate_droplets(field, threshold=rule, modes=modes, interface_width=w, refine=refine)
            ctx.check("C19.dim1-modes-raise", False, {"outcome": "no exception"}, tags)
        except ValueError:
            ctx.check("C19.dim1-modes-raise", True)
        except Exception as e:  # noqa
            ctx.check("C19.dim1-modes-raise", False, {"outcome": repr(e)}, tags)
        return
    extra = {}
    if case.get("nproc"):
        from mcx import sched

        sched.install()
        extra["num_processes"] = case["nproc"]
        ctx.count("requests-with-worker-processes")
    try:
        em = locate_droplets(field, threshold=rule, modes=modes, interface_width=w, refine=refine, **extra)
        ctx.op()
    except Exception as e:  # noqa
        ctx.check("C19.no-raise", False, {"exc": repr(e)[:300]}, tags)
        return
    ctx.check("C19.no-raise", True)
    if modes > 0:
        want = PerturbedDroplet3DAxisSym if g["kind"] == "cyl" else {2: PerturbedDroplet2D, 3: PerturbedDroplet3D}[dim]
    elif w is not None or refine:
        want = DiffuseDroplet
    else:
        want = SphericalDroplet
    if len(em):
        ctx.count("results-with-droplets")
    if len(em) >= 2:
        ctx.count("results-with->=2-droplets")
    ctx.check("C19.class", all(type(d) is want for d in em), {"got": sorted({type(d).__name__ for d in em}), "want": want.__name__}, tags)
    ctx.check("C19.dim", all(d.dim == dim for d in em), {"dims": [d.dim for d in em]}, tags)
    if modes > 0:
        ctx.check("C19.modes", all(len(d.amplitudes) == modes and d.modes == modes for d in em), {"got": [len(d.amplitudes) for d in em], "want": modes}, tags)
    if w is not None and not refine:
        ctx.check("C19.width-carried", all(hasattr(d, "interface_width") and d.interface_width is not None and d.interface_width == w for d in em), {"got": [getattr(d, "interface_width", "n/a") for d in em], "want": w}, tags)
    if len(em):
        ctx.check("C19.layout", len({d.data.dtype for d in em}) == 1, {"dtypes": [str(d.data.dtype) for d in em]}, tags)
        try:
            data = em.data
            ok = len(data) == len(em) and data.dtype.names == em[0].data.dtype.names
        except Exception as e:  # noqa
            ok = False
        ctx.check("C19.layout", ok, {"what": "Emulsion.data cannot be formed"}, tags)
        ctx.check("C19.finite", all(np.all(np.isfinite(np.asarray(d.position))) and np.isfinite(d.radius) for d in em), {"droplets": [str(d) for d in em]}, tags)


def expected_positive(tier):
    return ["C19.class", "C19.dim", "C19.modes", "C19.width-carried", "C19.layout", "C19.dim1-modes-raise", "results-with-droplets", "results-with->=2-droplets", "requests-after-a-prelude", "images-in-other-data-forms"]
