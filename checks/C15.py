"""C15 - results do not depend on the number of worker processes or on scheduling (kind S).

The real `refine_droplets`, `locate_droplets(refine=True)`, `EmulsionTimeCourse.from_storage` and
`DropletTrackList.from_storage` are run under the controlled virtual-time pool of mcx/sched.py, installed at the
`concurrent.futures` / `multiprocessing.Pool` seam from outside the library.  For every scenario and every worker count
k in {2..n+1, "auto"} EVERY feasible completion order of the tasks on a FIFO k-worker pool is executed and the returned
droplets are compared bit-for-bit and in order with the serial run (k = 1).  Further blocks: all call histories up to a
depth bound inside one process (results must not depend on what ran before), a fresh interpreter with another hash seed,
and a free-running pass with the real ProcessPoolExecutor.
"""
import itertools
import json
import os
import pickle
import subprocess
import sys

import numpy as np

from mcx import geom, sched

PID = "C15"
RULE = (
    "for every scenario (9 refinement inputs incl. an empty candidate list, caller-supplied optimiser options, a candidate exactly on the coordinate origin and a list naming the same candidate object twice, 4 locate inputs incl. an empty image, 6 stored sequences incl. a translated box and identical data on a grid of other periodicity, one 132-task refinement (first 3 schedules only, declared cap), incl. equal time stamps and empty frames, with/without "
    "refinement, time course and track list) x worker count k in {2..n+1, auto}: every completion order of the n tasks on k FIFO workers "
    "(depth-first over choice sequences, default-first; count = k!*k^(n-k) for the library's one-task-per-item map, asserted for the "
    "enumerator on a trivial function); all call histories of length <= 2 (3 thorough) over (scenario, k in {1,2}) run in a freshly forked "
    "process each; one fresh-interpreter run per scenario with PYTHONHASHSEED=1; real ProcessPoolExecutor with k in {2,3,auto}; "
    "non-trivial = schedule in which at least one task overtakes an earlier one"
)
ASSUMPTIONS = [
    "worker pool abstraction: tasks submitted up front, dispatched FIFO to k workers, one completion per blocking point of the consumer; "
    "tasks execute in real forked worker processes (per-worker state persists, arguments/results are pickled) but atomically, so "
    "interleavings INSIDE tasks and real OS timing are not explored (the free-running conformance pass exercises them uncontrolled)",
    "scenario inputs are fixed catalogues; n <= 4 tasks (quick) / 5 (thorough)",
    "refine_droplets is compared on value-equal fresh candidate objects (the serial path refines DiffuseDroplet candidates in place)",
]
DEDUPE = False
FRESH_WORKER_PER_BLOCK = True
CAPS = "scenario refine-17 (17 tasks): only the first 3 completion schedules for each of 2, 3, 4, auto workers; scenario refine-many (132 tasks): only the first 3 completion schedules with 2 workers (default order and two deviations) plus the fresh-interpreter and real-pool passes; every other scenario: all schedules"
_REF = {}
_PERSIST = {}  # inputs a caller keeps alive across analyses (per process)


# ----------------------------------------------------------------------
# scenarios
# ----------------------------------------------------------------------
GRID2 = {"kind": "cart", "shape": [30, 28], "dx": [1.0, 1.0], "origin": [0.0, 0.0], "periodic": [True, False]}
GRID1 = {"kind": "cart", "shape": [48], "dx": [0.5], "origin": [-3.0], "periodic": [True]}
# radii whose size ranking, as a permutation of the input order, contains a cycle of length >= 3
DROPS5 = [([6.3, 6.2], 5.1, 1.0), ([17.4, 5.1], 2.6, 0.8), ([25.2, 9.7], 3.3, 1.2), ([8.1, 20.3], 4.2, 0.9), ([21.6, 21.2], 3.7, 1.1)]
FRAMES = {
    "A": [([6.3, 6.2], 3.1, 1.0), ([20.4, 18.1], 4.2, 0.9)],
    "B": [([12.2, 13.7], 4.6, 1.1)],
    "E": [],
    "C": [([5.2, 20.9], 2.9, 0.8), ([15.0, 7.5], 3.6, 1.0), ([24.1, 20.2], 2.7, 0.9)],
    "D": [([13.0, 14.4], 4.4, 1.1)],
    "X": [([29.6, 10.2], 3.4, 0.9), ([14.8, 0.4], 3.1, 1.0), ([14.2, 14.1], 2.6, 0.8)],
    "Y": [([0.3, 27.7], 3.6, 1.0), ([15.5, 13.0], 3.0, 0.9)],
}


def scenarios(tier):
    n = 5 if tier == "thorough" else 4
    out = {}
    out["refine-std"] = {"api": "refine", "drops": DROPS5[:n], "kwargs": {}, "shift": 0.4}
    if tier == "thorough":
        # six tasks: 3338 completion orders over k = 2..7 and auto
        out["refine-6"] = {"api": "refine", "drops": DROPS5 + [([13.5, 13.2], 2.2, 0.8)], "kwargs": {"tolerance": 1e-8}, "shift": 0.3}
    out["refine-3"] = {"api": "refine", "drops": [DROPS5[3], DROPS5[1], DROPS5[2]], "kwargs": {"tolerance": 1e-7}, "shift": -0.3}
    out["refine-fit"] = {"api": "refine", "drops": DROPS5[:n], "kwargs": {"vmin": None, "vmax": None, "adjust_values": True}, "shift": 0.25, "affine": [2.0, -0.5]}
    out["refine-sph"] = {"api": "refine", "drops": DROPS5[:n][::-1], "kwargs": {}, "shift": 0.2, "cls": "spherical"}
    out["refine-nowidth"] = {"api": "refine", "drops": DROPS5[1:n], "kwargs": {}, "shift": 0.3, "cls": "diffuse-nowidth"}
    for form in ("generator", "iter", "tuple", "emulsion", "map"):
        out["refine-form-" + form] = {"api": "refine", "drops": DROPS5[:3], "kwargs": {}, "shift": 0.35, "form": form, "bulk": form not in ("generator",), "ks": [2, 3, 4, "auto"], "cap": None}
    # more candidates than a small chunk / batch size, a number no worker count divides
    out["refine-17"] = {"api": "refine", "many": [17, 1], "kwargs": {"least_squares_params": {"max_nfev": 4}}, "shift": 0.2, "bulk": True, "drops": [], "ks": [2, 3, 4, "auto"]}
    # perturbed candidates placed EXACTLY on the main diagonal of a square box (equal angles to the first and the last cell)
    out["refine-diagonal"] = {"api": "refine", "drops": [([7.0, 7.0], 3.1, 1.0), ([18.0, 18.0], 4.2, 1.0), ([29.0, 29.0], 2.8, 1.0)], "kwargs": {}, "shift": 0.0, "cls": "perturbed2d", "shape": [36, 36], "periodic": [False, False]}
    out["refine-none"] = {"api": "refine", "drops": [], "kwargs": {}, "shift": 0.0, "field_drops": DROPS5[:2]}
    out["refine-lsq"] = {"api": "refine", "drops": DROPS5[:n], "kwargs": {"vmin": None, "vmax": None, "adjust_values": True, "least_squares_params": {"max_nfev": 400}},
                         "shift": 0.3, "contrast": [1.0, 0.6, 1.5, 0.8, 1.2]}
    # first candidate centred EXACTLY on the coordinate origin of a periodic box (zero is a member of every alphabet), no displacement
    out["refine-origin"] = {"api": "refine", "drops": [([0.0, 0.0], 4.1, 1.0)] + DROPS5[1:n], "kwargs": {}, "shift": 0.0, "periodic": [True, True]}
    # the SAME candidate object listed twice (and a noisy image, so that a fit started from a refined state moves on): aliasing in the input
    out["refine-alias"] = {"api": "refine", "drops": DROPS5[:3], "kwargs": {"tolerance": 1e-3}, "shift": 0.4, "alias": True, "noise": 0.5}
    out["locate-empty"] = {"api": "locate", "drops": [], "kwargs": {"refine": True}}
    out["locate-one"] = {"api": "locate", "drops": DROPS5[2:3], "kwargs": {"refine": True, "modes": 1}}
    # the caller keeps ONE emulsion of candidates for the life of the process and hands a slice of it to every analysis
    out["refine-slice"] = {"api": "refine", "drops": DROPS5[:3], "kwargs": {}, "shift": 0.35, "persistent_slice": True}
    out["locate-std"] = {"api": "locate", "drops": DROPS5[:n], "kwargs": {"refine": True}}
    out["locate-modes"] = {"api": "locate", "drops": DROPS5[:n], "kwargs": {"refine": True, "modes": 2, "minimal_radius": 1.0, "refine_args": {"tolerance": 1e-6}}}
    seq = ["A", "B", "E", "C", "D"][:n] if n == 5 else ["A", "B", "E", "C"]
    t_dup = [0.0, 1.0, 1.0, 2.5, 2.5][:n]
    t_inc = [0.0, 0.5, 1.5, 2.0, 4.0][:n]
    out["storage-plain"] = {"api": "storage", "frames": seq, "times": t_inc, "kwargs": {"refine": False}}
    out["storage-dup-refine"] = {"api": "storage", "frames": ["C", "A", "B", "D", "E"][:n], "times": t_dup, "kwargs": {"refine": True}}
    out["storage-dup"] = {"api": "storage", "frames": ["B", "A", "C", "E", "D"][:n], "times": t_dup, "kwargs": {"refine": False, "minimal_radius": 1.0}}
    # same box, other periodicity, droplets reaching across both boundaries (state keyed on the grid must include the periodicity)
    out["storage-pp"] = {"api": "storage", "frames": ["X", "A", "Y", "X", "B"][:n], "times": t_inc, "kwargs": {"refine": False}, "periodic": [True, True]}
    out["storage-pn"] = {"api": "storage", "frames": ["X", "A", "Y", "X", "B"][:n], "times": t_inc, "kwargs": {"refine": False}, "periodic": [True, False]}
    # cylindrical grid with dz != 1 and periodic z: a frame with a thread spanning the axis, frames with a blob across the boundary
    out["storage-cyl"] = {"api": "storage", "cyl_frames": ["Cm", "T", "Bx", "Cm2", "Bx"][:n], "frames": ["Cm", "T", "Bx", "Cm2", "Bx"][:n], "times": t_inc, "kwargs": {"refine": False}}
    # the same box translated (equal shape and spacing, other bounds): state keyed on the grid must include the bounds
    out["storage-shifted"] = {"api": "storage", "frames": ["C", "A", "B", "D", "E"][:n], "times": t_inc, "kwargs": {"refine": True}, "origin": [-16.0, 3.5]}
    # the same image data stored on a grid that differs ONLY in its periodicity from the one of an earlier analysis
    out["storage-pn-samedata"] = {"api": "storage", "frames": ["X", "A", "Y", "X", "B"][:n], "times": t_inc, "kwargs": {"refine": False}, "periodic": [True, False], "render_periodic": [True, True]}
    # many small tasks (more results than any fixed-size pool of buffers): 132 candidates on a 12 x 11 lattice; the number of completion
    # orders is astronomically large, so only the first schedules are run (declared cap), plus the fresh-interpreter and real-pool passes
    out["refine-many"] = {"api": "refine", "many": [12, 11], "kwargs": {"least_squares_params": {"max_nfev": 4}}, "shift": 0.2, "bulk": True, "drops": []}
    out["tracks-dup"] = {"api": "tracks", "frames": ["A", "C", "B", "D", "E"][:n], "times": t_dup, "kwargs": {"refine": False, "method": "distance"}}
    return out


def _field(drops, affine=None, contrast=None, periodic=None, origin=None, shape=None):
    from droplets import DiffuseDroplet, Emulsion

    grid = geom.make_grid(GRID2 if periodic is None else dict(GRID2, periodic=list(periodic)))
    if shape is not None:
        grid = geom.make_grid(dict(GRID2, shape=list(shape), periodic=list(periodic or GRID2["periodic"])))
    if origin is not None:
        grid = geom.make_grid(dict(GRID2, origin=list(origin)))
        drops = [([x + o for x, o in zip(c, origin)], R, w) for c, R, w in drops]
    f = Emulsion([DiffuseDroplet(np.array(c, float), R, w) for c, R, w in drops]).get_phasefield(grid) if drops else None
    if contrast and drops:  # every droplet with its own intensity (so automatically determined levels differ per droplet)
        f = sum(DiffuseDroplet(np.array(c, float), R, w).get_phase_field(grid) * a for (c, R, w), a in zip(drops, contrast))
    if f is None:
        from pde import ScalarField

        f = ScalarField(grid, 0.0)
    if affine:
        f = f * affine[0] + affine[1]
    return f


def build(sc):
    """fresh input objects for one call"""
    from droplets import DiffuseDroplet, SphericalDroplet

    if sc["api"] == "refine" and sc.get("many"):
        from droplets import Emulsion
        from pde import UnitGrid

        nx, ny = sc["many"]
        grid = UnitGrid([8 * nx, 8 * ny], periodic=[True, False])
        truth = [([8 * i + 4.2, 8 * j + 3.9], 2.0 + 0.05 * ((3 * i + 5 * j) % 7), 0.8) for i in range(nx) for j in range(ny)]
        field = Emulsion([DiffuseDroplet(np.array(c, float), R, w) for c, R, w in truth]).get_phasefield(grid)
        cands = [DiffuseDroplet(np.array(c, float) + sc["shift"], R * 0.95, w * 1.2) for c, R, w in truth]
        return field, cands
    if sc["api"] == "refine":
        field = _field(sc.get("field_drops", sc["drops"]), sc.get("affine"), sc.get("contrast"), sc.get("periodic"), shape=sc.get("shape"))
        if sc.get("noise"):
            idx = np.indices(field.grid.shape)
            field = field + sc["noise"] * ((((idx[0] * 3 + idx[1] * 4) * 37 + (idx[0] ** 2 + idx[1] ** 2) * 11) % 17) / 16.0 - 0.5)  # fixed lattice of values
        cands = []
        for i, (c, R, w) in enumerate(sc["drops"]):
            pos = np.array(c, float) + sc["shift"] * np.array([1.0, -0.7]) * (1 + 0.3 * i)
            if sc.get("cls") == "spherical":
                cands.append(SphericalDroplet(pos, R * 1.07))
            elif sc.get("cls") == "diffuse-nowidth":
                cands.append(DiffuseDroplet(pos, R * 0.95))
            elif sc.get("cls") == "perturbed2d":
                from droplets.droplets import PerturbedDroplet2D

                cands.append(PerturbedDroplet2D(pos, R * (0.93 + 0.04 * i), w * 1.3, [0.05, -0.03, 0.02, 0.0]))
            else:
                cands.append(DiffuseDroplet(pos, R * (0.93 + 0.04 * i), w * 1.3))
        if sc.get("alias"):
            cands = [cands[0], cands[1], cands[0], cands[2], cands[1]]  # objects 0 and 1 appear twice
        return field, cands
    if sc["api"] == "locate":
        return (_field(sc["drops"]),)
    from pde import MemoryStorage

    if "cyl_frames" in sc:
        from pde import ScalarField

        grid = geom.make_grid({"kind": "cyl", "shape": [8, 20], "R": 8.0, "z": [0.0, 10.0], "periodic_z": True})  # ONE grid object for all frames
        st = MemoryStorage()
        st.start_writing(ScalarField(grid, 0.0))
        for name, t in zip(sc["cyl_frames"], sc["times"]):
            a = np.zeros((8, 20))
            if name == "Cm":
                a[:3, 8:13] = 1
            elif name == "T":
                a[:2, :] = 1
            elif name == "Bx":
                a[:3, :3] = 1
                a[:3, 17:] = 1
            else:
                a[:2, 4:8] = 1
                a[:2, 12:16] = 1
            st.append(ScalarField(grid, a), t)
        return (st,)
    st = MemoryStorage()
    first = _field([], periodic=sc.get("periodic"), origin=sc.get("origin"))
    st.start_writing(first)
    for name, t in zip(sc["frames"], sc["times"]):
        f = _field(FRAMES[name], periodic=sc.get("render_periodic", sc.get("periodic")), origin=sc.get("origin"))
        if "render_periodic" in sc:
            from pde import ScalarField

            f = ScalarField(first.grid, f.data)  # same numbers, grid with the other periodicity
        st.append(f, t)
    return (st,)


def call(sc, k):
    """one call of the public entry point on fresh inputs; returns a canonical JSON-able result"""
    import droplets
    from droplets import image_analysis as ia

    if sc.get("persistent_slice"):
        from droplets import Emulsion

        key = json.dumps(sc, sort_keys=True)
        if key not in _PERSIST:
            f, c = build(sc)
            _PERSIST[key] = (f, Emulsion(c))
        field, em = _PERSIST[key]
        res = ia.refine_droplets(field, em[:], num_processes=k, **sc["kwargs"])
        return {"droplets": [canon_d(d) for d in res]}
    inp = build(sc)
    if sc["api"] == "refine":
        cands = inp[1]
        form = sc.get("form")  # the candidates are documented as an iterable: every container form must give the serial result
        if form == "generator":
            cands = (d for d in cands)
        elif form == "iter":
            cands = iter(cands)
        elif form == "tuple":
            cands = tuple(cands)
        elif form == "emulsion":
            cands = droplets.Emulsion(cands)
        elif form == "map":
            cands = map(lambda d: d, cands)
        res = ia.refine_droplets(inp[0], cands, num_processes=k, **sc["kwargs"])
        return {"droplets": [canon_d(d) for d in res]}
    if sc["api"] == "locate":
        res = droplets.locate_droplets(inp[0], num_processes=k, **sc["kwargs"])
        return {"droplets": [canon_d(d) for d in res]}
    if sc["api"] == "storage":
        res = droplets.EmulsionTimeCourse.from_storage(inp[0], num_processes=k, **sc["kwargs"])
        return {"times": [float(t) for t in res.times], "frames": [[canon_d(d) for d in e] for e in res.emulsions]}
    if sc["api"] == "tracks":
        res = droplets.DropletTrackList.from_storage(inp[0], num_processes=k, **sc["kwargs"])
        return {"tracks": [{"times": [float(t) for t in tr.times], "droplets": [canon_d(d) for d in tr.droplets]} for tr in res]}
    raise ValueError(sc["api"])


def canon_d(d):
    return [type(d).__name__, d.data.tobytes().hex()]


def describe(res):
    """human-readable numbers for violation details"""

    def dd(c):
        name, hx = c
        return [name] + [round(float(x), 6) for x in np.frombuffer(bytes.fromhex(hx), dtype=float)]

    def walk(o):
        if isinstance(o, list) and len(o) == 2 and isinstance(o[0], str) and isinstance(o[1], str):
            return dd(o)
        if isinstance(o, list):
            return [walk(x) for x in o]
        if isinstance(o, dict):
            return {k: walk(v) for k, v in o.items()}
        return o

    return walk(res)


def flat(res):
    out = []

    def walk(o):
        if isinstance(o, list) and len(o) == 2 and isinstance(o[0], str) and isinstance(o[1], str):
            out.append(tuple(o))
        elif isinstance(o, list):
            for x in o:
                walk(x)
        elif isinstance(o, dict):
            for v in o.values():
                walk(v)

    walk(res)
    return out


def diff_kind(a, b):
    fa, fb = flat(a), flat(b)
    if sorted(fa) == sorted(fb):
        return "same droplets, different order/placement"
    if len(fa) != len(fb):
        return f"different number of droplets ({len(fb)} vs {len(fa)})"
    return "different parameter values"


# ----------------------------------------------------------------------
# fresh-interpreter / real-pool helper (python -m checks.C15 --digest <tier> <mode>)
# ----------------------------------------------------------------------
def _child_main(tier, mode):
    import logging
    import warnings

    logging.disable(logging.CRITICAL)
    warnings.simplefilter("ignore")
    np.seterr(all="ignore")
    scs = scenarios(tier)
    out = {}
    ks = [1] if mode == "serial" else [2, 3, "auto"]
    for name, sc in scs.items():
        for k in ks:
            try:
                out[f"{name}|{k}"] = call(sc, k)
            except BaseException as e:  # noqa: BLE001
                out[f"{name}|{k}"] = {"raised": repr(e)}
    sys.stdout.write("C15DIGEST " + json.dumps(out) + "\n")


def _spawn(tier, mode, hashseed):
    env = dict(os.environ)
    env["PYTHONHASHSEED"] = str(hashseed)
    p = subprocess.run([sys.executable, "-W", "ignore", "-m", "checks.C15", "--digest", tier, mode], env=env, capture_output=True, text=True, timeout=1500)
    for line in p.stdout.splitlines():
        if line.startswith("C15DIGEST "):
            return json.loads(line[len("C15DIGEST "):])
    raise RuntimeError(f"digest helper failed rc={p.returncode}: {p.stderr[-800:]}")


def in_fork(fn):
    """run fn() in a freshly forked copy of this process and return its (pickled) result"""
    r, w = os.pipe()
    sys.stdout.flush()
    pid = os.fork()
    if pid == 0:
        code = 0
        try:
            os.close(r)
            try:
                out = (True, fn())
            except BaseException as e:  # noqa: BLE001
                out = (False, repr(e))
            with os.fdopen(w, "wb") as fp:
                pickle.dump(out, fp)
        except BaseException:  # noqa: BLE001
            code = 1
        finally:
            os._exit(code)
    os.close(w)
    with os.fdopen(r, "rb") as fp:
        data = fp.read()
    os.waitpid(pid, 0)
    ok, val = pickle.loads(data)
    if not ok:
        raise RuntimeError(val)
    return val


# ----------------------------------------------------------------------
# engine interface
# ----------------------------------------------------------------------
def setup(tier, seed):
    # reference = serial result computed in a fresh interpreter (hash seed 0, the harness default)
    if os.environ.get("MCX_C15_NOREF"):
        return
    _REF["tier"] = tier
    _REF["serial"] = _spawn(tier, "serial", 0)
    _REF["selftest"] = None


def ks_for(n):
    return sorted(set([2, 3] + list(range(2, n + 2)))) + ["auto"]


def ntasks(sc):
    return len(sc["drops"]) if "drops" in sc else len(sc["frames"])


def blocks(tier, seed):
    out = [{"part": "selftest"}]
    scs = scenarios(tier)
    for name, sc in scs.items():
        if sc.get("bulk"):
            for k in sc.get("ks", [2]):
                out.append({"part": "schedules", "scenario": name, "k": k, "tier": tier, "cap": sc.get("cap", 3)})
            continue
        for k in ks_for(ntasks(sc)):
            out.append({"part": "schedules", "scenario": name, "k": k, "tier": tier})
    calls = [(name, k) for name in scs for k in (1, 2) if not scs[name].get("bulk")]
    for first in calls:
        out.append({"part": "history", "first": list(first), "tier": tier})
    out.append({"part": "fresh", "tier": tier})
    out.append({"part": "realpool", "tier": tier})
    return out


def reference(tier, name):
    if "serial" not in _REF:
        setup(tier, 0)
    return _REF["serial"][f"{name}|1"]


def run_block(block, ctx):
    from mcx import core

    part = block["part"]
    if part == "selftest":
        table = sched.selftest()
        ctx.begin({"part": "selftest"}, nontrivial=False)
        ctx.check("C15.enumerator-closed-form", True)
        ctx.count("selftest-schedules", sum(table.values()))
        return
    tier = block["tier"]
    scs = scenarios(tier)
    sched.install()
    if part == "schedules":
        name, k = block["scenario"], block["k"]
        sc = scs[name]
        ref = reference(tier, name)
        here = in_fork(lambda: safe_call(sc, 1))
        ctx.begin({"part": "serial", "scenario": name, "tier": tier}, nontrivial=False)
        ctx.check("C15.repeat", here == ref, {"what": "serial run in this process differs from the serial run of a fresh interpreter", "kind": diff_kind(ref, here) if "raised" not in here else here}, {"api": sc["api"]})
        outcomes, orders = set(), set()
        nsched = 0
        for choices, res, ch in sched.explore(lambda: safe_call(sc, k), limit=block.get("cap")):
            nsched += 1
            case = {"part": "schedule", "scenario": name, "k": k, "schedule": choices, "tier": tier}
            overt = any(a > b for a, b in zip(ch.order, ch.order[1:]))
            ctx.begin(case, nontrivial=overt)
            ctx.op(len(ch.order))
            judge(ctx, sc, res, ref, ch, k)
            outcomes.add(json.dumps(res, sort_keys=True))
            orders.add(tuple(ch.order))
            if ch.submits == 0:
                ctx.count("seam-bypassed-executions")
            else:
                ctx.count("tasks-submitted", ch.submits)
            if overt:
                ctx.count("schedules-with-overtaking")
        ctx.count("distinct-completion-orders", len(orders))
        ctx.count("distinct-outcomes", len(outcomes))
        kk = (os.cpu_count() or 1) if k == "auto" else k
        if block.get("cap"):
            ctx.count("capped-schedule-blocks")
        elif nsched == sched.closed_form(ntasks(sc), kk):
            ctx.count("blocks-matching-closed-form")
        return
    if part == "history":
        calls = [(name, k) for name in scs for k in (1, 2) if not scs[name].get("bulk")]
        depth = 3 if tier == "thorough" else 2
        first = tuple(block["first"])
        tails = [()]
        for d in range(1, depth):
            tails += list(itertools.product(calls, repeat=d))
        if tier == "thorough":
            # depth 3 only over the calls sharing the first call's api family or k (complete sub-alphabet), keeps the space at 12*(1+12+36)
            fam = [c for c in calls if scs[c[0]]["api"] == scs[first[0]]["api"]]
            tails = [t for t in tails if len(t) < 2 or all(c in fam for c in t)]
        for tail in tails:
            hist = [list(first)] + [list(c) for c in tail]
            core.run_one(sys.modules[__name__], {"part": "history", "hist": hist, "tier": tier}, ctx, nontrivial=len(hist) > 1)
        return
    if part in ("fresh", "realpool"):
        core.run_one(sys.modules[__name__], {"part": part, "tier": tier}, ctx)
        return
    raise ValueError(part)


def safe_call(sc, k):
    try:
        return call(sc, k)
    except sched.ScheduleDivergence:
        raise
    except BaseException as e:  # noqa: BLE001
        return {"raised": repr(e)}


def judge(ctx, sc, res, ref, ch, k, tags=None):
    tags = dict(tags or {}, api=sc["api"])
    if "raised" in res:
        ctx.check("C15.no-raise", False, {"exc": res["raised"], "k": k}, tags)
        return
    ctx.check("C15.no-raise", True)
    ok = res == ref
    ctx.check(
        "C15.equal",
        ok,
        None if ok else {"kind": diff_kind(ref, res), "k": k, "completion_order": list(ch.order) if ch else None, "serial": describe(ref), "got": describe(res)},
        tags,
    )


def run_case(case, ctx):
    """single cases: a schedule (replay), a history, the fresh-interpreter and the real-pool pass"""
    part = case["part"]
    tier = case.get("tier", "quick")
    scs = scenarios(tier)
    if part == "schedule":
        sched.install()
        sc = scs[case["scenario"]]
        ref = reference(tier, case["scenario"])
        res, ch = sched.run_schedule(lambda: safe_call(sc, case["k"]), case["schedule"])
        res2, ch2 = sched.run_schedule(lambda: safe_call(sc, case["k"]), case["schedule"])
        if res != res2 or ch.order != ch2.order:
            raise RuntimeError("replaying one schedule twice gave different observations (harness nondeterminism)")
        ctx.op(len(ch.order))
        judge(ctx, sc, res, ref, ch, case["k"])
        return
    if part == "serial":
        sc = scs[case["scenario"]]
        ref = reference(tier, case["scenario"])
        here = in_fork(lambda: safe_call(sc, 1))
        ctx.check("C15.repeat", here == ref, {"kind": diff_kind(ref, here)}, {"api": sc["api"]})
        return
    if part == "history":
        sched.install()
        hist = [tuple(c) for c in case["hist"]]

        def body():
            return [safe_call(scs[name], k) for name, k in hist]

        results = in_fork(body)
        ctx.op(len(hist))
        for i, ((name, k), res) in enumerate(zip(hist, results)):
            ref = reference(tier, name)
            ok = res == ref
            ctx.check(
                "C15.history-independent",
                ok,
                None if ok else {"call": i, "scenario": name, "k": k, "kind": diff_kind(ref, res) if "raised" not in res else res, "expected": describe(ref), "got": describe(res)},
                {"api": scs[name]["api"]},
            )
        if len(hist) > 1 and hist[0][0] == hist[1][0]:
            ctx.count("same-input-repeated")
        return
    if part == "fresh":
        other = _spawn(tier, "serial", 1)
        for name in scs:
            ref = reference(tier, name)
            got = other[f"{name}|1"]
            ctx.op()
            ctx.check("C15.repeat", got == ref, {"what": "fresh interpreter with PYTHONHASHSEED=1 differs", "scenario": name, "kind": diff_kind(ref, got) if "raised" not in got else got}, {"api": scs[name]["api"]})
        return
    if part == "realpool":
        real = _spawn(tier, "real", 1)
        for name, sc in scs.items():
            ref = reference(tier, name)
            for k in (2, 3, "auto"):
                got = real[f"{name}|{k}"]
                ctx.op()
                if "raised" in got:
                    ctx.check("C15.no-raise", False, {"exc": got["raised"], "k": k, "pool": "real"}, {"api": sc["api"]})
                    continue
                ok = got == ref
                ctx.check("C15.real-pool-equal", ok, None if ok else {"scenario": name, "k": k, "kind": diff_kind(ref, got), "serial": describe(ref), "got": describe(got)}, {"api": sc["api"]})
        return
    raise ValueError(part)


def expected_positive(tier):
    return ["C15.equal", "C15.repeat", "C15.history-independent", "C15.real-pool-equal", "C15.enumerator-closed-form", "tasks-submitted",
            "schedules-with-overtaking", "distinct-completion-orders", "blocks-matching-closed-form", "same-input-repeated"]


if __name__ == "__main__":
    if len(sys.argv) >= 4 and sys.argv[1] == "--digest":
        _child_main(sys.argv[2], sys.argv[3])
