"""C07 - tracks follow droplet identity (kind H, see checks/_track.py).

Same history space as C06, restricted (as the statement does) to histories whose frames are internally non-overlapping.
"""
import numpy as np

from checks import _track as tr

PID = "C07"
RULE = (
    "all frame histories up to the depth bound over the frame alphabet x all tracker configurations (see C06), restricted to histories "
    "whose frames are internally non-overlapping; links of the returned tracks are compared with the overlap relation / the greedy "
    "closest-pair reference computed with an own (periodic) metric; non-trivial = some pair of consecutive frames are both non-empty"
    "; grids also with a non-zero lower bound and with mixed periodicity (non-periodic in 1-D); exactly representable (dyadic, 3-4-5) lattices on which contact is decidable; time variants incl. 1e5 + 0.5 k and k*1e-9; time courses continued by append() without a time (library-chosen stamps must stay strictly increasing); tracks from stored fields (DropletTrackList.from_storage) on all histories of <= 3 frames over 11 frames must equal those of the analysed time course"
)
ASSUMPTIONS = [
    "droplet types from the declared lattices; contacts / distances within 1e-9 of a threshold are treated as ambiguous and skipped",
    "greedy reference is only compared when all candidate distances between the two frames differ by more than 1e-9",
]
DEDUPE = False


STORE_POS = [6.0, 12.5, 19.0, 26.0]
STORE_R = 2.5


def blocks(tier, seed):
    out = tr.make_blocks(tier, seed)
    ph = [0.0, 0.03, 0.07][seed % 3]
    # second entry point: tracks obtained directly from stored fields must be those of the time course analysed from the same storage
    for method in ("overlap", "distance"):
        for n in ((2, 3) if tier != "thorough" else (2, 3, 4)):
            for first in range(11):
                if n == 4 and first % 2:
                    continue
                out.append({"storage": True, "method": method, "len": n, "first": first, "phase": ph})
    return out


def storage_frames():
    import itertools

    out = [()]
    for k in (1, 2):
        out.extend(itertools.combinations(range(len(STORE_POS)), k))
    return out


def cases(block):
    if block.get("storage"):
        import itertools

        F = storage_frames()
        for rest in itertools.product(F, repeat=block["len"] - 1):
            yield {"storage": True, "method": block["method"], "phase": block["phase"], "hist": [list(F[block["first"]])] + [list(f) for f in rest]}
        return
    for h in tr.histories(block):
        if len(h) >= 2:
            yield {"block": block, "hist": h}


def greedy(D, max_dist):
    D = D.copy()
    D[D > max_dist] = np.inf
    links = {}
    while D.size and np.isfinite(D).any():
        i, j = np.unravel_index(np.argmin(D), D.shape)
        links[int(i)] = int(j)
        D[i, :] = np.inf
        D[:, j] = np.inf
    return links


def run_storage(case, ctx):
    import pde
    from droplets import DropletTrackList, Emulsion, EmulsionTimeCourse, SphericalDroplet

    grid = pde.UnitGrid([32])
    storage = pde.MemoryStorage()
    times = [0.5 * i - 1 for i in range(len(case["hist"]))]
    for t, fr in zip(times, case["hist"]):
        em = Emulsion([SphericalDroplet(np.array([STORE_POS[i] + case["phase"]]), STORE_R) for i in fr])
        field = em.get_phasefield(grid) if fr else pde.ScalarField(grid)
        if t == times[0]:
            storage.start_writing(field)
        storage.append(field, t)
    storage.end_writing()
    tags = {"method": case["method"], "entry": "from_storage"}
    canon = lambda tl: sorted((tuple(float(t) for t in trk.times), tuple(d.data.tobytes() for d in trk.droplets)) for trk in tl)
    try:
        direct = DropletTrackList.from_storage(storage, method=case["method"])
        etc = EmulsionTimeCourse.from_storage(storage)
        ref = DropletTrackList.from_emulsion_time_course(etc, method=case["method"])
        other = DropletTrackList.from_emulsion_time_course(etc, method="overlap" if case["method"] == "distance" else "distance")
        ctx.op(3 * len(times))
    except Exception as e:  # noqa
        ctx.check("C07.no-raise", False, {"exc": repr(e)[:300]}, tags)
        return
    if canon(ref) != canon(other):
        ctx.count("storage-histories-where-methods-differ")
    ctx.check("C07.entry-point", canon(direct) == canon(ref), {"direct": [[list(map(float, t.times)), [float(d.position[0]) for d in t.droplets]] for t in direct],
                                                                 "via_time_course": [[list(map(float, t.times)), [float(d.position[0]) for d in t.droplets]] for t in ref]}, tags)


def run_case(case, ctx):
    if case.get("storage"):
        return run_storage(case, ctx)
    block, hist = case["block"], case["hist"]
    cfg = block["cfg"]
    tags = {"method": cfg["method"], "grid": cfg["grid"]}
    etc, T, L, dim, times = tr.build(block, hist)

    def d(a, b):
        return tr.dist(cfg, L, dim, T[a][0], T[b][0])

    if block.get("how") == "ctor+append":
        ctx.count("library-chosen-time-stamps")
        ok = all(b > a for a, b in zip(times, times[1:]))
        ctx.check("C07.times-increasing", ok, {"times": times, "what": "time course continued with append(emulsion) without a time"}, tags)
        if not ok:
            return

    for fr in hist:
        for a in range(len(fr)):
            for b in range(a + 1, len(fr)):
                if tr.overlapping(d(fr[a], fr[b]) - T[fr[a]][1] - T[fr[b]][1], block) is not False:
                    ctx.skip("precondition:in-frame-overlap")
                    return
    try:
        tracks = tr.run_tracking(block, etc, L, dim)
        ctx.op(len(hist))
    except Exception as e:  # noqa
        ctx.check("C07.no-raise", False, {"exc": repr(e)}, tags)
        return
    ident = tr.identify(tracks, hist, T, times)
    ctx.check("C07.partition", ident is not None, {"tracks": [[list(map(float, t.times)), [list(map(float, x.position)) + [x.radius] for x in t.droplets]] for t in tracks]}, tags)
    if ident is None:
        return
    link = {}  # (frame, slot) -> (frame, slot) of the next entry in the same track
    starts = set()
    for ent in ident:
        starts.add(ent[0])
        for a, b in zip(ent, ent[1:]):
            link[a] = b
    for n in range(len(hist) - 1):
        A, B = hist[n], hist[n + 1]
        if A and B:
            ctx.count("consecutive-nonempty-frames")
        got = {sa: link[(n, sa)][1] for sa in range(len(A)) if (n, sa) in link and link[(n, sa)][0] == n + 1}
        skipped = {sa for sa in range(len(A)) if (n, sa) in link and link[(n, sa)][0] != n + 1}
        ctx.check("C07.consecutive", not skipped, {"frame": n, "links_skipping_frames": sorted(skipped)}, tags)
        D = np.array([[d(a, b) for b in B] for a in A]).reshape(len(A), len(B))
        if cfg["grid"] and A and B:
            De = np.array([[tr.geom.point_dist(None, T[a][0], T[b][0]) for b in B] for a in A])
            if np.any(np.abs(De - D) > 1e-9):
                ctx.count("pairs-where-periodic-metric-differs")
        if cfg["method"] == "overlap":
            S = D - np.array([[T[a][1] + T[b][1] for b in B] for a in A]).reshape(len(A), len(B))
            if not tr.exact(block) and np.any(np.abs(S) < tr.TOL):
                ctx.skip("knife-edge:contact")
                continue
            O = S < 0
            if np.any(S == 0):
                ctx.count("exact-contacts-between-frames")
            for sa, sb in got.items():
                ctx.check("C07.ov-link", bool(O[sa, sb]), {"frame": n, "a": A[sa], "b": B[sb], "surface": S[sa, sb]}, tags)
            for sb in range(len(B)):
                if not O[:, sb].any():
                    ctx.check("C07.ov-new", (n + 1, sb) in starts, {"frame": n + 1, "slot": sb}, tags)
            if len(A) and len(B) and (O.sum(axis=0) <= 1).all() and (O.sum(axis=1) <= 1).all():
                want = {int(sa): int(np.flatnonzero(O[sa])[0]) for sa in range(len(A)) if O[sa].any()}
                ctx.check("C07.ov-bijective", got == want, {"frame": n, "got": got, "want": want, "A": A, "B": B}, tags)
                if want:
                    ctx.count("bijective-overlap-links", len(want))
                    if cfg["grid"] and any(abs(tr.geom.point_dist(None, T[A[sa]][0], T[B[sb]][0]) - D[sa, sb]) > 1e-9 for sa, sb in want.items()):
                        ctx.count("identity-kept-across-periodic-boundary")
        else:
            md = np.inf if cfg["max_dist"] == "inf" else cfg["max_dist"]
            if np.isfinite(md) and np.any(np.abs(D - md) < tr.TOL):
                ctx.skip("knife-edge:cut-off")
                continue
            for sa, sb in got.items():
                ctx.check("C07.di-cutoff", D[sa, sb] <= md, {"frame": n, "dist": D[sa, sb], "max_dist": md}, tags)
            ended = [sa for sa in range(len(A)) if sa not in got]
            new = [sb for sb in range(len(B)) if (n + 1, sb) in starts]
            for sa in ended:
                for sb in new:
                    ctx.check("C07.di-maximal", not (D[sa, sb] <= md), {"frame": n, "ended": A[sa], "new": B[sb], "dist": D[sa, sb], "max_dist": md}, tags)
            ctx.check("C07.di-injective", len(set(got.values())) == len(got), {"got": got}, tags)
            flat = np.sort(D[D <= md].ravel())
            if len(flat) > 1 and np.any(np.diff(flat) < tr.TOL):
                ctx.skip("distances-not-distinct")
                continue
            want = greedy(D, md) if len(A) and len(B) else {}
            ctx.check("C07.di-greedy", got == want, {"frame": n, "got": got, "want": want, "A": A, "B": B, "D": D}, tags)
            if want:
                ctx.count("greedy-links", len(want))
                if len(A) >= 2 and len(B) >= 2:
                    ctx.count("competing-candidates")
                if cfg["grid"] and any(abs(tr.geom.point_dist(None, T[A[sa]][0], T[B[sb]][0]) - D[sa, sb]) > 1e-9 for sa, sb in want.items()):
                    ctx.count("identity-kept-across-periodic-boundary")


def expected_positive(tier):
    return ["C07.ov-link", "C07.ov-new", "C07.ov-bijective", "C07.di-cutoff", "C07.di-maximal", "C07.di-greedy", "consecutive-nonempty-frames",
            "bijective-overlap-links", "greedy-links", "competing-candidates", "identity-kept-across-periodic-boundary", "pairs-where-periodic-metric-differs", "exact-contacts-between-frames", "library-chosen-time-stamps", "C07.entry-point", "storage-histories-where-methods-differ"]
