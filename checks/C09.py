"""C09 - analysis never aborts on valid input and returns finite droplets.

Space (kind I/H): (a) locating: ALL binary images of small grids + a catalogue of fields (zeros, ones, single cell,
checkerboard, ramp, sinusoid, fixed noise lattices, rescaled) on every grid family x threshold rule x minimal radius x
interface width x modes x refine x refine_args; (b) rendering: catalogue of valid droplets of all classes (zero radius,
zero width, amplitudes on the bounds, centre on a cell centre / outside the box) x grids of every family; (c) tracking: all
frame histories of a small alphabet (incl. empty frames) x all tracker configurations; (d) the two simulation trackers on
3-frame sequences.  Only the documented errors may be raised.
"""
import itertools
import os

import numpy as np

from checks import _track as tr
from mcx import geom

PID = "C09"
RULE = (
    "complete products: (a) images x option combinations as declared per block (unrefined: full option product on all binary images of "
    "the small shapes; refined: all 3x3 binary images and the field catalogue with three refine_args settings); (b) droplet catalogue x grid "
    "catalogue; (c) histories over the tracking alphabets; (d) field sequences of length 3 over a 4-field alphabet; (e) tracking with a polar / spherical / cylindrical grid supplied, all histories of "
    "<= 3 frames over 6 frames; (f) refine_droplet called directly on the droplet catalogue (incl. perturbed classes without modes) x 3 fields x 2 option sets; "
    "non-trivial = field / droplet is not identically zero"
)
ASSUMPTIONS = [
    "fields restricted to the enumerated images / catalogue; grids up to 12 cells per axis; mild anisotropy",
    "documented errors: modes > 0 in one dimension (ValueError), droplet/grid dimension mismatch (ValueError), non-ScalarField input (TypeError)",
]
THRESH = [0.5, 0.3, "auto", "extrema", "mean", "otsu"]
MINR = [0.0, 0.7, 3.0]
IW = [None, 0.0, 0.7]
MODES = [0, 1, 2, 3]
_LSQ = {"max_nfev": 300}  # one caller-owned options dict, deliberately shared by every request that uses it
RARGS = [{}, {"vmin": None, "vmax": None}, {"vmin": None, "vmax": None, "adjust_values": True, "least_squares_params": _LSQ}]


def cart(shape, mask, dx=None, origin=None):
    return {"kind": "cart", "shape": list(shape), "dx": list(dx or [1.0] * len(shape)), "origin": list(origin or [0.0] * len(shape)), "periodic": list(mask)}


def cat_grids():
    return [
        cart((10,), (True,)), cart((9,), (False,), [0.5], [-2.0]),
        cart((8, 8), (True, True)), cart((8, 7), (False, True), [1.0, 1.5], [0.0, 3.0]),
        cart((6, 6, 5), (True, False, True)), cart((2, 3, 2), (False, False, False)),
        {"kind": "polar", "n": 8, "R": 8.0}, {"kind": "sph", "n": 8, "R": 4.0}, {"kind": "polar", "n": 2, "R": 1.0},
        {"kind": "cyl", "shape": [6, 10], "R": 6.0, "z": [0.0, 10.0], "periodic_z": False},
        {"kind": "cyl", "shape": [6, 10], "R": 6.0, "z": [-5.0, 5.0], "periodic_z": True},
        {"kind": "cyl", "shape": [2, 2], "R": 1.0, "z": [0.0, 1.0], "periodic_z": True},
    ]


FIELDS = ["zeros", "ones", "single", "checker", "ramp", "sin", "noise0", "noise1", "noise2", "noise3", "noise4", "rescaled", "blob", "negative"]


def cat_field(g, name):
    grid = geom.make_grid(g)
    shape = grid.shape
    idx = np.indices(shape)
    s = sum((k + 1) * i for k, i in enumerate(idx))
    if name == "zeros":
        return np.zeros(shape)
    if name == "ones":
        return np.ones(shape)
    if name == "single":
        f = np.zeros(shape)
        f[tuple(n // 2 for n in shape)] = 1.0
        return f
    if name == "checker":
        return (sum(idx) % 2).astype(float)
    if name == "ramp":
        return s / max(1, s.max())
    if name == "sin":
        return 0.5 + 0.5 * np.sin(2 * np.pi * idx[0] / shape[0] * 2 + 0.3)
    if name.startswith("noise"):
        v = int(name[5:])
        return ((s * (37 + 2 * v) + sum(i * i for i in idx) * (11 + v)) % 17) / 16.0
    if name == "rescaled":
        return 5.0 + 2.0 * cat_field(g, "blob")
    if name == "negative":
        return -2.0 + 0.5 * cat_field(g, "noise1")
    if name == "blob":
        c = [n * 0.4 for n in shape]
        d2 = sum((i + 0.5 - ci) ** 2 for i, ci in zip(idx, c))
        if g["kind"] in ("polar", "sph"):
            d2 = (idx[0] + 0.5) ** 2
        if g["kind"] == "cyl":
            d2 = (idx[0] + 0.5) ** 2 + (idx[1] + 0.5 - c[1]) ** 2
        return 0.5 + 0.5 * np.tanh((min(shape) * 0.3 - np.sqrt(d2)) / 1.0)
    raise ValueError(name)


def blocks(tier, seed):
    out = []
    # (a1) unrefined, full option product, all binary images
    for g, npre in ([(cart((n,), (m,)), 0) for n in (1, 2, 3, 4, 5) for m in (False, True)] + [(cart((3, 3), m), 2) for m in itertools.product((False, True), repeat=2)]
                    + [(cart((2, 2, 2), (True, False, True)), 1), ({"kind": "cyl", "shape": [3, 3], "R": 3.0, "z": [0.0, 3.0], "periodic_z": True}, 2),
                       ({"kind": "cyl", "shape": [2, 4], "R": 2.0, "z": [0.0, 2.0], "periodic_z": False}, 1), ({"kind": "polar", "n": 6, "R": 3.0}, 0), ({"kind": "sph", "n": 6, "R": 6.0}, 0)]):
        for pre in itertools.product((0, 1), repeat=npre):
            out.append({"part": "locate-binary", "grid": g, "prefix": list(pre), "tier": tier})
    # (a2) refined, all 3x3 binary images
    for m in itertools.product((False, True), repeat=2):
        for pre in itertools.product((0, 1), repeat=2):
            out.append({"part": "refine-binary", "grid": cart((2, 3), m), "prefix": list(pre)})
    if tier == "thorough":
        for m in itertools.product((False, True), repeat=2):
            for pre in itertools.product((0, 1), repeat=4):
                out.append({"part": "refine-binary", "grid": cart((3, 3), m), "prefix": list(pre)})
        for pre in itertools.product((0, 1), repeat=5):
            out.append({"part": "refine-binary", "grid": cart((3, 4), (True, False)), "prefix": list(pre)})
        for pre in itertools.product((0, 1), repeat=4):
            out.append({"part": "refine-binary", "grid": cart((2, 2, 3), (True, True, False)), "prefix": list(pre)})
        for pre in itertools.product((0, 1), repeat=4):
            out.append({"part": "refine-binary", "grid": {"kind": "cyl", "shape": [3, 3], "R": 3.0, "z": [0.0, 3.0], "periodic_z": True}, "prefix": list(pre)})
    # (a3) catalogue on every grid family
    for gi, g in enumerate(cat_grids()):
        for fi, f in enumerate(FIELDS):
            out.append({"part": "catalogue", "grid": g, "field": f, "tier": tier, "refined": False})
            if f != "checker" or tier == "thorough":  # refining 32 one-cell clusters takes ~1 min: thorough tier only
                out.append({"part": "catalogue", "grid": g, "field": f, "tier": tier, "refined": True})
    out.append({"part": "render"})
    out.append({"part": "render-mismatch"})
    for cfg in tr.configs():
        out.append({"part": "tracking", "cfg": cfg, "phase": 0.0})
    out.append({"part": "tracking-symgrid"})
    out.append({"part": "refine-direct"})
    for dim in (2, 3):
        out.append({"part": "tracking-mixed-classes", "dim": dim})
    out.append({"part": "trackers"})
    out.append({"part": "storage-reuse"})
    out.append({"part": "bad-input"})
    return out


def cases(block):
    p = block["part"]
    if p == "locate-binary":
        g = block["grid"]
        shape = g["shape"] if "shape" in g else [g["n"]]
        n = int(np.prod(shape))
        pre = block["prefix"]
        for rest in itertools.product((0, 1), repeat=n - len(pre)):
            yield {"part": p, "grid": g, "bits": "".join(map(str, list(pre) + list(rest))), "tier": block.get("tier", "quick")}
    elif p == "refine-binary":
        g = block["grid"]
        n = int(np.prod(g["shape"]))
        pre = block["prefix"]
        for rest in itertools.product((0, 1), repeat=n - len(pre)):
            for ai in (1, 2):
                yield {"part": p, "grid": g, "bits": "".join(map(str, list(pre) + list(rest))), "rargs": ai, "modes": 0}
    elif p == "catalogue":
        g = block["grid"]
        dim = geom.dim_of(g)
        if not block["refined"]:
            for thr in THRESH:
                for modes in ((0, 2) if dim > 1 else (0, 1)):
                    for iw in IW:
                        yield {"part": p, "grid": g, "field": block["field"], "threshold": thr, "modes": modes, "iw": iw, "refine": False, "minr": 0.0}
            # many / odd numbers of modes (beyond any table of low-degree harmonics), unrefined and - for 2-d boxes - refined
            for modes in ((5, 7, 12) if dim == 2 else (10, 26, 40) if dim == 3 else ()):
                yield {"part": p, "grid": g, "field": block["field"], "threshold": 0.5, "modes": modes, "iw": None, "refine": False, "minr": 0.0}
                if dim == 2 and g["kind"] == "cart" and max(g["shape"]) <= 12 and block["field"] in ("single", "sin", "blob"):
                    yield {"part": p, "grid": g, "field": block["field"], "threshold": 0.5, "modes": modes, "iw": None, "refine": True, "rargs": 0, "minr": 0.0}
            return
        slow = dim == 3 and g["kind"] == "cart" and min(g["shape"]) > 3
        quick = block["tier"] != "thorough"
        for thr in ((0.5, "auto", "otsu") if not (slow or quick) else ((0.5, "otsu") if not slow else (0.5,))):
            for modes in ((0, 2) if dim > 1 else (0,)):
                for ai in range(3):
                    if slow and (ai == 1 or (modes and quick)):
                        continue
                    if quick and thr == "otsu" and (modes or ai != 2):
                        continue
                    yield {"part": p, "grid": g, "field": block["field"], "threshold": thr, "modes": modes, "iw": [None, 0.0, 0.7][ai], "refine": True, "rargs": ai, "minr": 0.0 if ai else 0.7}
                    if not slow and thr == 0.5:
                        # the same request with several worker processes (controlled pool of mcx/sched.py, default schedule)
                        yield {"part": p, "grid": g, "field": block["field"], "threshold": thr, "modes": modes, "iw": [None, 0.0, 0.7][ai], "refine": True, "rargs": ai, "minr": 0.0 if ai else 0.7, "nproc": 2 + ai}
    elif p == "render":
        yield from render_cases()
    elif p == "render-mismatch":
        for gi, g in enumerate(cat_grids()):
            for di in range(len(DROPS)):
                if DROPS[di][1] != geom.dim_of(g):
                    yield {"part": p, "grid": g, "drop": di}
    elif p == "tracking":
        for alph, maxn, depth, times in (("1d-small", 2, 2, "half-offset"), ("2d", 2, 2, "unit"), ("3d", 2, 3, "neg-int"), ("1d", 1, 3, "nonuniform")):
            blk = {"alph": alph, "phase": block["phase"], "cfg": block["cfg"], "maxn": maxn, "ordered": False, "depth": depth, "first": "all", "times": times}
            for h in tr.histories(blk):
                yield {"part": p, "block": blk, "hist": h}
    elif p == "tracking-symgrid":
        # tracking with a grid of a symmetric family supplied (droplets centred / on the axis)
        grids = [{"kind": "polar", "n": 8, "R": 8.0}, {"kind": "sph", "n": 8, "R": 8.0}, {"kind": "cyl", "shape": [6, 10], "R": 6.0, "z": [0.0, 10.0], "periodic_z": False},
                 {"kind": "cyl", "shape": [6, 10], "R": 6.0, "z": [-5.0, 5.0], "periodic_z": True}]
        F = [[], [0], [1], [2], [0, 2], [1, 2]]
        for g in grids:
            for method, md in (("overlap", None), ("distance", None), ("distance", 1.5)):
                for n in (2, 3):
                    for hist in itertools.product(F, repeat=n):
                        yield {"part": p, "grid": g, "method": method, "max_dist": md, "hist": [list(f) for f in hist]}
    elif p == "tracking-mixed-classes":
        # one slowly moving droplet that consecutive frames represent by DIFFERENT droplet classes (frames analysed with different options)
        ncls = 5 if block["dim"] == 2 else 4
        F = [None] + list(range(ncls))
        for method, md in (("overlap", None), ("distance", None), ("distance", 1.5)):
            for periodic in (False, True):
                for n in (2, 3):
                    for hist in itertools.product(F, repeat=n):
                        yield {"part": p, "dim": block["dim"], "method": method, "max_dist": md, "periodic": periodic, "hist": list(hist)}
    elif p == "refine-direct":
        # refining catalogue droplets directly (incl. perturbed classes WITHOUT modes, zero radius / width) against catalogue fields
        for g in cat_grids():
            dim = geom.dim_of(g)
            if min(g.get("shape", [g.get("n")])) < 3:
                continue
            for di, (cls, ddim, kw) in enumerate(DROPS + DROPS_NOMODES):
                if ddim != dim:
                    continue
                if cls == "PerturbedDroplet3DAxisSym" and g["kind"] != "cyl":
                    continue  # (axisymmetric droplets on Cartesian grids are rendered in C03; here: the grids they are located on)
                if cls == "PerturbedDroplet3D" and g["kind"] == "cyl":
                    continue
                if kw.get("radius", 1) > 10:
                    continue
                for fname in ("blob", "zeros", "noise1"):
                    for ai in (0, 2):
                        yield {"part": p, "grid": g, "drop": di, "field": fname, "rargs": ai}
    elif p == "trackers":
        for g in (cart((12, 12), (True, True)), cart((10,), (False,)), {"kind": "cyl", "shape": [6, 10], "R": 6.0, "z": [0.0, 10.0], "periodic_z": False}):
            names = ["zeros", "blob", "noise1"]
            seqs = list(itertools.product(names, repeat=3)) + [("ones", "blob", "ones"), ("blob", "ones", "zeros")]
            for seq in seqs:
                for refine in (False, True):
                    if refine and seq.count("noise1") > 1:
                        continue
                    yield {"part": p, "grid": g, "seq": list(seq), "refine": refine}
    elif p == "storage-reuse":
        # a stored sequence is analysed, the resulting time course is extended by the caller, and the SAME storage is analysed again
        for g in (cart((12, 12), (True, True)), cart((10,), (False,)), {"kind": "cyl", "shape": [6, 10], "R": 6.0, "z": [0.0, 10.0], "periodic_z": False}):
            for seq in itertools.product(["zeros", "blob", "noise1"], repeat=2):
                for extend in ("append", "append-time", "tracker"):
                    yield {"part": p, "grid": g, "seq": list(seq), "extend": extend}
    elif p == "bad-input":
        yield {"part": p}


DROPS = [
    ("SphericalDroplet", 1, dict(radius=0.0)), ("SphericalDroplet", 1, dict(radius=2.3)), ("DiffuseDroplet", 1, dict(radius=1.0, interface_width=0.0)),
    ("SphericalDroplet", 2, dict(radius=0.0)), ("DiffuseDroplet", 2, dict(radius=2.0, interface_width=None)), ("DiffuseDroplet", 2, dict(radius=1e-12, interface_width=1e-12)),
    ("DiffuseDroplet", 2, dict(radius=50.0, interface_width=0.3)),
    ("PerturbedDroplet2D", 2, dict(radius=2.0, interface_width=0.5, amplitudes=[1.0, -1.0])), ("PerturbedDroplet2D", 2, dict(radius=2.0, interface_width=0.0, amplitudes=[0.0, 0.0, 0.0])),
    ("PerturbedDroplet2D", 2, dict(radius=0.0, interface_width=None, amplitudes=[0.3])),
    ("SphericalDroplet", 3, dict(radius=1.7)), ("DiffuseDroplet", 3, dict(radius=0.0, interface_width=0.0)),
    ("PerturbedDroplet3D", 3, dict(radius=2.0, interface_width=0.5, amplitudes=[1.0, -1.0, 1.0])), ("PerturbedDroplet3D", 3, dict(radius=1.5, interface_width=None, amplitudes=[0.0] * 8)),
    ("PerturbedDroplet3D", 3, dict(radius=1.5, interface_width=0.0, amplitudes=[0.1] * 24)),
    ("PerturbedDroplet3DAxisSym", 3, dict(radius=2.0, interface_width=0.5, amplitudes=[1.0, -1.0])), ("PerturbedDroplet3DAxisSym", 3, dict(radius=0.0, interface_width=0.0, amplitudes=[0.2, 0.0, 0.0, -0.4])),
]


DROPS_NOMODES = [
    ("PerturbedDroplet2D", 2, dict(radius=2.0, interface_width=0.7, amplitudes=None)), ("PerturbedDroplet2D", 2, dict(radius=2.0, interface_width=None, amplitudes=[])),
    ("PerturbedDroplet3D", 3, dict(radius=1.6, interface_width=0.7, amplitudes=None)), ("PerturbedDroplet3DAxisSym", 3, dict(radius=2.0, interface_width=0.7, amplitudes=None)),
]


def render_cases():
    for gi, g in enumerate(cat_grids()):
        dim = geom.dim_of(g)
        grid_centres = []
        if g["kind"] == "cart":
            lo, dx, n = g["origin"], g["dx"], g["shape"]
            grid_centres = [[lo[a] + (n[a] // 2 + 0.5) * dx[a] for a in range(dim)], [lo[a] + (n[a] // 2) * dx[a] for a in range(dim)], [lo[a] + 0.31 * dx[a] for a in range(dim)],
                            [lo[a] + (n[a] * 1.5 + 0.2) * dx[a] for a in range(dim)], [lo[a] - 7.7 * dx[a] for a in range(dim)]]
        elif g["kind"] == "cyl":
            z0, z1 = g["z"]
            grid_centres = [[0.0, 0.0, z] for z in (z0 + 0.5 * (z1 - z0) / g["shape"][1], 0.5 * (z0 + z1), z0, z1 + 3.3, z0 - 0.2)]
        else:
            grid_centres = [[0.0] * dim]
        for di, (cls, ddim, kw) in enumerate(DROPS):
            if ddim != dim:
                continue
            if cls == "PerturbedDroplet3DAxisSym" and g["kind"] != "cyl" and g["kind"] != "cart":
                continue
            for c in grid_centres:
                if cls == "PerturbedDroplet3DAxisSym":
                    c = [0.0, 0.0, c[2]]
                for lv in ((0.0, 1.0), (-3.0, 7.5)):
                    yield {"part": "render", "grid": g, "drop": di, "centre": c, "levels": list(lv)}


def finite_em(em):
    for d in em:
        a = np.asarray(d._data_array, float)
        names = d.data.dtype.names
        for nm in names:
            v = np.atleast_1d(np.asarray(d.data[nm], float))
            if nm == "interface_width":
                if not (np.all(np.isfinite(v)) or np.all(np.isnan(v))):
                    return False
            elif not np.all(np.isfinite(v)):
                return False
    return True


def run_case(case, ctx):
    p = case["part"]
    if p in ("locate-binary", "refine-binary", "catalogue"):
        return run_locate(case, ctx)
    if p == "render":
        return run_render(case, ctx)
    if p == "render-mismatch":
        from droplets import droplets as dm

        cls, ddim, kw = DROPS[case["drop"]]
        kw = dict(kw)
        if "amplitudes" in kw:
            kw["amplitudes"] = np.array(kw["amplitudes"], float)
        d = getattr(dm, cls)(np.zeros(ddim), **kw)
        try:
            d.get_phase_field(geom.make_grid(case["grid"]))
            ctx.check("C09.documented-error", False, {"outcome": "no exception for droplet/grid dimension mismatch"})
        except ValueError:
            ctx.check("C09.documented-error", True)
        except Exception as e:  # noqa
            ctx.check("C09.documented-error", False, {"outcome": repr(e)[:200]})
        return
    if p == "tracking":
        block, hist = case["block"], case["hist"]
        etc, T, L, dim, times = tr.build(block, hist)
        try:
            tracks = tr.run_tracking(block, etc, L, dim)
            ctx.op(len(hist))
            ok = True
        except Exception as e:  # noqa
            ctx.check("C09.no-raise", False, {"exc": repr(e)[:300]}, {"part": "tracking", "method": block["cfg"]["method"]})
            return
        ctx.check("C09.no-raise", True)
        ctx.check("C09.finite", all(np.all(np.isfinite(np.asarray(d.position))) and np.isfinite(d.radius) for t in tracks for d in t.droplets) and all(np.isfinite(float(x)) for t in tracks for x in t.times), None, {"part": "tracking"})
        if any(len(f) == 0 for f in hist):
            ctx.count("time-course-with-empty-frame")
        return
    if p == "tracking-symgrid":
        from droplets import DropletTrackList, Emulsion, EmulsionTimeCourse, SphericalDroplet

        g = case["grid"]
        grid = geom.make_grid(g)
        if g["kind"] == "cyl":
            types = [([0.0, 0.0, g["z"][0] + z], r) for z, r in ((2.0, 1.2), (3.5, 1.0), (7.5, 1.5))]
        else:
            types = [([0.0] * geom.dim_of(g), r) for r in (1.0, 2.5, 4.0)]
        etc = EmulsionTimeCourse([Emulsion([SphericalDroplet(np.array(types[i][0]), types[i][1]) for i in fr]) for fr in case["hist"]], times=[0.5 * i for i in range(len(case["hist"]))])
        tags = {"part": p, "method": case["method"], "grid": g["kind"]}
        kw = {} if case["max_dist"] is None else {"max_dist": case["max_dist"]}
        try:
            tracks = DropletTrackList.from_emulsion_time_course(etc, method=case["method"], grid=grid, **kw)
            ctx.op(len(case["hist"]))
        except Exception as e:  # noqa
            ctx.check("C09.no-raise", False, {"exc": repr(e)[:300]}, tags)
            return
        ctx.check("C09.no-raise", True)
        ctx.count("tracking-with-symmetric-grid")
        ctx.check("C09.finite", sum(len(t) for t in tracks) == sum(len(f) for f in case["hist"]) and all(np.all(np.isfinite(np.asarray(d.position))) and np.isfinite(d.radius) for t in tracks for d in t.droplets), None, tags)
        return
    if p == "tracking-mixed-classes":
        import pde
        from droplets import DiffuseDroplet, DropletTrackList, Emulsion, EmulsionTimeCourse, SphericalDroplet
        from droplets.droplets import PerturbedDroplet2D, PerturbedDroplet3D, PerturbedDroplet3DAxisSym

        dim = case["dim"]
        ems = []
        for i, c in enumerate(case["hist"]):
            pos = np.array([4.0 + 0.3 * i] + [4.0] * (dim - 1)) if dim == 2 else np.array([0.0, 0.0, 4.0 + 0.3 * i])
            if c is None:
                ems.append(Emulsion([]))
                continue
            if dim == 2:
                d = [lambda: SphericalDroplet(pos, 2.0), lambda: DiffuseDroplet(pos, 2.0, 0.5), lambda: DiffuseDroplet(pos, 2.0), lambda: PerturbedDroplet2D(pos, 2.0, 0.5, [0.1, -0.05]),
                     lambda: PerturbedDroplet2D(pos, 2.0, None, [0.0, 0.1, 0.0, 0.05])][c]()
            else:
                d = [lambda: SphericalDroplet(pos, 2.0), lambda: DiffuseDroplet(pos, 2.0, 0.5), lambda: PerturbedDroplet3D(pos, 2.0, 0.5, [0.0, 0.1, 0.05]), lambda: PerturbedDroplet3DAxisSym(pos, 2.0, 0.5, [0.1, 0.05])][c]()
            ems.append(Emulsion([d, SphericalDroplet(pos + 5.0 * np.eye(dim)[0] * (1 if dim == 2 else 0) + (np.array([0, 0, 5.0]) if dim == 3 else 0), 1.0)]))
        etc = EmulsionTimeCourse(ems, times=[0.5 * i for i in range(len(ems))])
        grid = pde.UnitGrid([12] * dim, periodic=True) if case["periodic"] else None
        tags = {"part": p, "method": case["method"], "dim": dim, "periodic": case["periodic"]}
        kw = {} if case["max_dist"] is None else {"max_dist": case["max_dist"]}
        try:
            tracks = DropletTrackList.from_emulsion_time_course(etc, method=case["method"], grid=grid, **kw)
            ctx.op(len(ems))
        except Exception as e:  # noqa
            ctx.check("C09.no-raise", False, {"exc": repr(e)[:300]}, tags)
            return
        ctx.check("C09.no-raise", True)
        if len({c for c in case["hist"] if c is not None}) > 1:
            ctx.count("tracking-one-droplet-through-different-classes")
        ctx.check("C09.finite", sum(len(t) for t in tracks) == sum(len(e) for e in ems) and all(np.all(np.isfinite(np.asarray(d.position))) and np.isfinite(d.radius) for t in tracks for d in t.droplets), None, tags)
        return
    if p == "refine-direct":
        from pde import ScalarField

        from droplets import droplets as dm
        from droplets.image_analysis import refine_droplet

        g = case["grid"]
        grid = geom.make_grid(g)
        cls, ddim, kw = (DROPS + DROPS_NOMODES)[case["drop"]]
        kw = dict(kw)
        if kw.get("amplitudes") is not None:
            kw["amplitudes"] = np.array(kw["amplitudes"], float)
        if g["kind"] == "cart":
            c = [g["origin"][a] + (g["shape"][a] * 0.4 + 0.2) * g["dx"][a] for a in range(ddim)]
        elif g["kind"] == "cyl":
            c = [0.0, 0.0, 0.5 * (g["z"][0] + g["z"][1]) + 0.2]
        else:
            c = [0.0] * ddim
        tags = {"part": p, "grid": g["kind"], "cls": cls, "modes": 0 if kw.get("amplitudes") is None else len(kw["amplitudes"]), "rargs": "+".join(sorted(RARGS[case["rargs"]])) or "default"}
        field = ScalarField(grid, cat_field(g, case["field"]))
        try:
            d = getattr(dm, cls)(np.array(c, float), **kw)
            res = refine_droplet(field, d, **dict(RARGS[case["rargs"]]))
            ctx.op()
        except Exception as e:  # noqa
            ctx.check("C09.no-raise", False, {"exc": repr(e)[:300], "field": case["field"]}, tags)
            return
        ctx.check("C09.no-raise", True)
        ctx.count("directly-refined-candidates")
        if tags["modes"] == 0 and cls.startswith("Perturbed"):
            ctx.count("perturbed-candidates-without-modes")
        ctx.check("C09.finite", finite_em([res]), {"result": str(res)}, tags)
        return
    if p == "storage-reuse":
        from pde import MemoryStorage, ScalarField

        from droplets import DropletTrackList, Emulsion, EmulsionTimeCourse

        g = case["grid"]
        grid = geom.make_grid(g)
        fields = [ScalarField(grid, cat_field(g, n)) for n in case["seq"]]
        st = MemoryStorage()
        st.start_writing(fields[0])
        for i, f in enumerate(fields):
            st.append(f, 0.5 * i)
        st.end_writing()
        tags = {"part": p, "grid": g["kind"], "extend": case["extend"]}
        try:
            etc = EmulsionTimeCourse.from_storage(st, progress=False)
            if case["extend"] == "append":
                etc.append(Emulsion())
            elif case["extend"] == "append-time":
                etc.append(Emulsion(), 7.5)
            else:
                t = etc.tracker(1)
                t.initialize(fields[0])
                t.handle(fields[-1], 9.0)
            again = EmulsionTimeCourse.from_storage(st, progress=False)
            tracks = DropletTrackList.from_storage(st, progress=False)
            ctx.op(3)
        except Exception as e:  # noqa
            ctx.check("C09.no-raise", False, {"exc": repr(e)[:300], "seq": case["seq"]}, tags)
            return
        ctx.check("C09.no-raise", True)
        ctx.count("storage-analysed-again-after-extending-the-time-course")
        ctx.check("C09.finite", len(again) == len(fields) and len(st.times) == len(fields) and all(finite_em(e) for e in again) and len(etc) == len(fields) + 1, {"frames": len(again), "storage_times": list(st.times)}, tags)
        return
    if p == "trackers":
        return run_trackers(case, ctx)
    if p == "bad-input":
        from pde import UnitGrid, VectorField

        from droplets import locate_droplets
        from droplets.image_analysis import refine_droplet

        for bad in (np.zeros((4, 4)), VectorField(UnitGrid([4, 4])), None):
            try:
                locate_droplets(bad)
                ctx.check("C09.documented-error", False, {"outcome": "no exception for non-ScalarField"})
            except TypeError:
                ctx.check("C09.documented-error", True)
            except Exception as e:  # noqa
                ctx.check("C09.documented-error", False, {"outcome": repr(e)[:200]})
        return


def run_locate(case, ctx):
    from pde import ScalarField

    from droplets import locate_droplets

    g = case["grid"]
    grid = geom.make_grid(g)
    dim = grid.dim
    p = case["part"]
    if p == "catalogue":
        data = cat_field(g, case["field"])
        combos = [(case["threshold"], case["minr"], case["iw"], case["modes"], case["refine"], RARGS[case.get("rargs", 0)])]
        if case.get("nproc"):
            from mcx import sched

            sched.install()
            ctx.count("requests-with-worker-processes")
    else:
        shape = tuple(g["shape"]) if "shape" in g else (g["n"],)
        data = np.array([c == "1" for c in case["bits"]], float).reshape(shape)
        if p == "locate-binary":
            thorough = case.get("tier") == "thorough"
            modes = (MODES if thorough else [0, 2]) if dim > 1 else [0]
            combos = [(t, m, iw, mo, False, {}) for t in (THRESH if thorough else [0.5, "auto", "mean", "otsu"]) for m in (MINR if thorough else [0.0, 3.0]) for iw in IW for mo in modes]
        else:
            combos = [(0.5, 0.0, None, case["modes"], True, RARGS[case["rargs"]]), ("auto", 0.0, 0.0 if case["rargs"] == 1 else 0.7, case["modes"], True, RARGS[case["rargs"]])]
    field = ScalarField(grid, data)
    if np.any(data != 0):
        ctx.count("non-zero-field")
    for thr, minr, iw, modes, refine, rargs in combos:
        tags = {"part": p, "grid": g["kind"], "dim": dim, "refine": refine, "modes": modes, "threshold": str(thr), "rargs": "+".join(sorted(rargs)) or "default"}
        try:
            extra = {"num_processes": case["nproc"]} if case.get("nproc") else {}
            image = field.data.tobytes()
            em = locate_droplets(field, threshold=thr, minimal_radius=minr, interface_width=iw, modes=modes, refine=refine, refine_args=dict(rargs), **extra)
            ctx.check("C09.image-unmodified", field.data.tobytes() == image, None, tags)
            ctx.op()
        except ValueError as e:
            if modes > 0 and dim == 1 and "Perturbed droplets only supported" in str(e):
                ctx.check("C09.documented-error", True)
            else:
                ctx.check("C09.no-raise", False, {"exc": repr(e)[:300], "options": [thr, minr, iw, modes, refine, rargs], "field": case.get("field", case.get("bits"))}, tags)
            continue
        except Exception as e:  # noqa
            ctx.check("C09.no-raise", False, {"exc": repr(e)[:300], "options": [thr, minr, iw, modes, refine, rargs], "field": case.get("field", case.get("bits"))}, tags)
            continue
        if modes > 0 and dim == 1:
            ctx.check("C09.documented-error", False, {"outcome": "modes > 0 accepted in 1-D"}, tags)
            continue
        ctx.check("C09.no-raise", True)
        ctx.check("C09.finite", finite_em(em), {"droplets": [str(d) for d in em][:4], "options": [thr, minr, iw, modes, refine, rargs], "field": case.get("field", case.get("bits"))}, tags)
        if refine and len(em):
            ctx.count("refined-results")


def run_render(case, ctx):
    from droplets import droplets as dm

    g = case["grid"]
    grid = geom.make_grid(g)
    cls, ddim, kw = DROPS[case["drop"]]
    kw = dict(kw)
    if "amplitudes" in kw:
        kw["amplitudes"] = np.array(kw["amplitudes"], float)
    tags = {"part": "render", "grid": g["kind"], "cls": cls}
    try:
        d = getattr(dm, cls)(np.array(case["centre"], float), **kw)
        f = d.get_phase_field(grid, vmin=case["levels"][0], vmax=case["levels"][1])
        ctx.op()
    except Exception as e:  # noqa
        ctx.check("C09.no-raise", False, {"exc": repr(e)[:300]}, tags)
        return
    ctx.check("C09.no-raise", True)
    ctx.check("C09.finite", bool(np.all(np.isfinite(f.data))), {"nonfinite": int(np.sum(~np.isfinite(f.data)))}, tags)


def run_trackers(case, ctx):
    import tempfile

    from pde import ScalarField

    from droplets import DropletTracker, LengthScaleTracker

    g = case["grid"]
    grid = geom.make_grid(g)
    fields = [ScalarField(grid, cat_field(g, n)) for n in case["seq"]]
    tags = {"part": "trackers", "grid": g["kind"], "refine": case["refine"]}
    for mk in ("droplet", "ls-mean", "ls-max", "ls-detect"):
        try:
            if mk == "droplet":
                t = DropletTracker(1, refine=case["refine"], threshold="auto" if case["refine"] else 0.5, refine_args={"vmin": None, "vmax": None} if case["refine"] else None)
            else:
                t = LengthScaleTracker(1, method={"ls-mean": "structure_factor_mean", "ls-max": "structure_factor_maximum", "ls-detect": "droplet_detection"}[mk])
            t.initialize(fields[0])
            for i, f in enumerate(fields):
                t.handle(f, 0.5 * i)
                ctx.op()
            t.finalize()
        except Exception as e:  # noqa
            ctx.check("C09.no-raise", False, {"tracker": mk, "exc": repr(e)[:300]}, dict(tags, tracker=mk))
            continue
        ctx.check("C09.no-raise", True)
        if mk == "droplet":
            ctx.check("C09.finite", len(t.data) == 3 and all(finite_em(e) for e in t.data), None, dict(tags, tracker=mk))
        else:
            ctx.check("C09.tracker-aligned", len(t.times) == len(t.length_scales) == 3, None, dict(tags, tracker=mk))


def expected_positive(tier):
    return ["C09.no-raise", "C09.finite", "C09.documented-error", "non-zero-field", "refined-results", "time-course-with-empty-frame", "requests-with-worker-processes", "tracking-with-symmetric-grid", "tracking-one-droplet-through-different-classes", "directly-refined-candidates", "perturbed-candidates-without-modes", "storage-analysed-again-after-extending-the-time-course"]
