"""Shared space / driver / reference model for the tracking properties C06 and C07 (kind H: operation histories).

A state is a history of frames (emulsions) fed to DropletTrackList.from_emulsion_time_course; a transition appends one
frame.  All histories up to the depth bound over the frame alphabet are enumerated; the tracker is an online
algorithm, so the tracks of a prefix are the restriction of the tracks of the full history (checked: C06.prefix).
"""
import itertools

import numpy as np

from mcx import geom

TOL = 1e-9

TIMES = {
    "unit": [0, 1, 2, 3, 4],
    "half-offset": [-0.5, 0, 0.5, 1.0, 1.5],
    "nonuniform": [0.3, 1.0, 4.5, 4.75, 9.0],
    "neg-int": [-2, 0, 1, 5, 6],
    # spacing far below the magnitude (relative 5e-6) and far below any absolute tolerance: still strictly increasing times
    "large-offset": [100000, 100000.5, 100001, 100001.5, 100002],
    "tiny": [0, 1e-9, 2e-9, 3e-9, 4e-9],
    # 1-based frame numbers: the last explicit stamp equals the number of frames so far
    "one-based": [1, 2, 3, 4, 5],
}


def exact(block):
    """dyadic alphabets: every distance / radius sum is exact in binary floating point, so contact (surface distance == 0)
    is decidable and counts as NOT overlapping"""
    return block["alph"].endswith("dyadic")


def overlapping(s, block):
    """surface distance s -> True (overlap) / False (disjoint or exact contact) / None (ambiguous knife-edge)"""
    if exact(block):
        return bool(s < 0)
    if abs(s) < TOL:
        return None
    return bool(s < 0)


def alphabet(name, ph=0.0):
    """droplet types (position, radius) and the box"""
    if name == "1d":
        pos = [0.4, 1.5, 3.9, 5.2]
        return [([p + ph], r) for p in pos for r in (0.35, 0.8)], 6.0, 1
    if name == "1d-motion":
        base = [0.4, 1.5, 2.7, 3.9, 5.2]
        types = [([p + ph], 0.35) for p in base]
        for dlt in (0.3, -0.9, 1.4):
            types += [([round((p + dlt) % 6.0, 10) + ph], 0.35) for p in base]
        return types, 6.0, 1
    if name == "1d-small":
        pos = [0.4, 1.5, 5.2]
        return [([p + ph], r) for p in pos for r in (0.35, 0.8)], 6.0, 1
    if name == "1d-full":
        pos = [0.4, 1.5, 2.7, 3.9, 5.2]
        return [([p + ph], r) for p in pos for r in (0.35, 0.8)], 6.0, 1
    if name == "1d-dyadic":
        dph = {0.0: 0.0, 0.03: 0.125, 0.07: 0.25}[ph]
        return [([p + dph], r) for p in (0.5, 2.0, 5.0) for r in (0.5, 1.0)], 6.0, 1
    if name == "2d-dyadic":
        dph = {0.0: 0.0, 0.03: 0.125, 0.07: 0.25}[ph]
        # (0.5,0.5)-(3.5,4.5) is a 3-4-5 triangle: distance exactly 5 = 2 + 3 (contact), < 3 + 3 (overlap), > 2 + 2 (apart)
        return [([x + dph, y], r) for (x, y) in ((0.5, 0.5), (3.5, 4.5), (8.5, 0.5)) for r in (2.0, 3.0)], 16.0, 2
    if name == "2d-cross":
        # pairs facing each other across the y boundary and across the x boundary of the box (L = 5): they overlap / are close only
        # under a metric that is periodic along THAT axis - decisive for grids with mixed periodicity
        return [([2.2 + ph, 0.4], 0.6), ([2.2 + ph, 4.7], 0.6), ([0.4 + ph, 2.2], 0.6), ([4.7 + ph, 2.2], 0.6), ([2.2 + ph, 2.2], 0.6)], 5.0, 2
    if name == "2d":
        return [([x + ph, y], 0.6) for x in (0.5, 2.2, 4.1) for y in (0.5, 4.1)] + [([2.2 + ph, 2.2], 1.1)], 5.0, 2
    if name == "2d-full":
        pos = [0.5, 2.2, 4.1]
        return [([x + ph, y], 0.6) for x in pos for y in pos] + [([2.2 + ph, 2.2], 1.1)], 5.0, 2
    if name.startswith("2d-crowd"):
        # N static, well separated background droplets (more than any plausible small-collection threshold) + one stage with actor types
        # that grow, shrink, move and vanish: types 0..N-1 are the background, N.. the actors
        N = int(name.split("-")[2])
        lattice = [(40.0 * i, 40.0 * j) for j in range(7) for i in range(10)][:N]
        bg = [([x + ph, y], 2.0) for x, y in lattice]
        actors = [([60.0 + dx + ph, 20.0 + dy], r) for dx, dy in ((0.0, 0.0), (8.0, 0.0), (13.5, 0.0), (0.0, -7.0)) for r in (10.0, 3.0)]
        return bg + actors, 400.0, 2
    if name == "3d":
        return [([x + ph, 0.6, 0.7], r) for x in (0.6, 2.9) for r in (0.5, 1.3)], 4.0, 3
    if name == "3d-full":
        return [([x + ph, y, 0.7], r) for x in (0.6, 2.9) for y in (0.6, 2.2) for r in (0.5, 1.3)], 4.0, 3
    raise ValueError(name)


def frames(ntypes, maxn, ordered):
    out = [()]
    for n in range(1, maxn + 1):
        it = itertools.product(range(ntypes), repeat=n) if ordered else itertools.combinations_with_replacement(range(ntypes), n)
        out.extend(it)
    return out


def frames_of(block, T):
    if block["alph"].startswith("2d-crowd"):
        N = int(block["alph"].split("-")[2])
        bg = tuple(range(N))
        return [bg] + [bg + (a,) for a in range(N, len(T))]
    return frames(len(T), block["maxn"], block["ordered"])


def grid_spec(L, dim, periodic=True, origin=0.0):
    mask = [periodic] * dim if isinstance(periodic, bool) else list(periodic)
    return {"kind": "cart", "shape": [int(L)] * dim, "dx": [1.0] * dim, "origin": [float(origin)] * dim, "periodic": mask}


def cfg_mask(cfg, dim):
    """periodicity of the supplied grid: all axes, or (grid='mixed') only the even ones - in 1-D that is a non-periodic grid"""
    if cfg["grid"] == "mixed":
        return [a % 2 == 1 for a in range(dim)]
    return [True] * dim


def cfg_origin(cfg):
    """lower bound of the periodic box: 0 for grid=True, non-zero for grid='shifted' (same period, same metric)"""
    return -2.5 if cfg["grid"] == "shifted" else 0.0


def configs():
    out = []
    for grid in (False, True):
        out.append({"method": "overlap", "grid": grid})
        for md in ("inf", 1.25, 0.5, 0.0, -1.0):  # 0: only droplets that did not move at all are linked
            out.append({"method": "distance", "grid": grid, "max_dist": md})
    # the same periodic box with a non-zero lower bound (the period, hence the metric, is unchanged)
    out.append({"method": "overlap", "grid": "shifted"})
    out.append({"method": "distance", "grid": "shifted", "max_dist": "inf"})
    out.append({"method": "distance", "grid": "shifted", "max_dist": 1.25})
    # a grid with periodic and non-periodic axes (a plain non-periodic grid in one dimension)
    out.append({"method": "overlap", "grid": "mixed"})
    out.append({"method": "distance", "grid": "mixed", "max_dist": "inf"})
    out.append({"method": "distance", "grid": "mixed", "max_dist": 1.25})
    return out


def make_blocks(tier, seed):
    ph = [0.0, 0.03, 0.07][seed % 3]
    out = []

    def add(alph, maxn, ordered, depth, times, split=False, **kw):
        T, L, dim = alphabet(alph, ph)
        F = frames_of({"alph": alph, "maxn": maxn, "ordered": ordered}, T)
        base = dict({"alph": alph, "phase": ph, "cfg": cfg, "maxn": maxn, "ordered": ordered, "depth": depth, "times": times}, **kw)
        if split:
            for i0 in range(len(F)):
                out.append(dict(base, first=i0))
        else:
            out.append(dict(base, first="all"))

    for cfg in configs():
        out.append({"alph": "1d", "phase": ph, "cfg": cfg, "maxn": 2, "ordered": False, "depth": 0, "first": None, "times": "unit"})
        trivial = cfg.get("max_dist") == -1.0
        # quick tier: the grid variants that only change origin / per-axis periodicity get the two-frame and motion blocks only
        light = cfg["grid"] in ("shifted", "mixed") and tier != "thorough"
        # base: 1-D, unordered frames of <= 2 droplets, histories of length 1..3, unit times
        if (not trivial or tier == "thorough") and not light:
            add("1d-small", 2, False, 3, "unit", split=True)
        # ordered frames, two frames, several time variants
        for tv in ((("half-offset",) if light else ("half-offset", "neg-int")) if tier != "thorough" else tuple(TIMES)):
            add("1d", 2, True, 2, tv, split=tier == "thorough")
        # single-droplet frames, longer histories
        if not light:
            add("1d", 1, True, 4, "unit", split=True)
            for tv in ("half-offset", "nonuniform", "neg-int"):
                add("1d", 1, True, 3, tv)
            # three droplets per frame (competition between candidates), two frames
            add("1d-small", 3, False, 2, "nonuniform", split=True, min_len=2)
        # motion: frame 1 = up to 3 lattice droplets, frame 2 = up to 2 (thorough: 3) droplets on the lattice displaced by 0/0.3/-0.9/1.4
        for i0 in range(21 if light else 56):  # light: first frames of <= 2 droplets
            out.append({"alph": "1d-motion", "phase": ph, "cfg": cfg, "maxn": 3 if tier == "thorough" else 2, "ordered": False, "depth": 2, "times": "half-offset", "motion": True, "first": i0})
        # exactly representable lattices: touching droplets (surface distance exactly 0) do not overlap
        add("1d-dyadic", 2, False, 2, "unit", split=True)
        add("1d-dyadic", 1, True, 3, "neg-int")
        add("2d-dyadic", 2, False, 2, "half-offset", split=True)
        # times whose spacing is tiny relative to their magnitude / in absolute terms
        for tv in ("large-offset", "tiny"):
            add("1d", 1, True, 3, tv)
            add("1d-small", 2, False, 2, tv)
        # time courses started with explicit stamps and continued with append(emulsion) without a time (the library chooses the stamp)
        for tv, nexp in (("one-based", 1), ("one-based", 2), ("half-offset", 1), ("nonuniform", 2)):
            add("1d", 1, True, 3 if tier != "thorough" else 4, tv, how="ctor+append", explicit=nexp)
            if not light:
                add("1d-small", 2, False, 2 if tier != "thorough" else 3, tv, how="ctor+append", explicit=nexp)
        add("2d", 2, False, 2, "half-offset", split=True)
        add("2d-cross", 2, False, 2, "unit", min_len=2)
        add("2d", 1, True, 3, "unit")
        add("3d", 2, False, 2, "neg-int")
        # life cycles of the frames before tracking (see build)
        if not light and not trivial:
            for life in ("linked", "pickled", "deepcopied-members", "rows"):
                add("1d-small", 2, False, 2, "unit", life=life)
                if cfg.get("max_dist") in (None, "inf"):
                    add("2d", 2, False, 2, "half-offset", life=life)
        # crowds: many static droplets (beyond small-collection thresholds) and one actor that grows / shrinks / moves / vanishes
        if cfg["grid"] in (False, True) and cfg.get("max_dist") in (None, "inf", 1.25):
            if cfg["grid"] is False or tier == "thorough":
                add("2d-crowd-70", 1, False, 2, "half-offset", min_len=2)
            add("2d-crowd-17", 1, False, 3 if (cfg.get("max_dist") in (None, "inf") and (cfg["grid"] is False or tier == "thorough")) else 2, "unit", split=True, min_len=2)
        elif not trivial and not light:
            add("2d-crowd-17", 1, False, 2, "nonuniform", min_len=2)
        if tier == "thorough":
            add("1d-dyadic", 2, False, 3, "half-offset", split=True)
            add("1d-dyadic", 3, False, 2, "nonuniform", split=True, min_len=2)
            add("1d-small", 2, False, 3, "large-offset", split=True)
            add("1d", 1, True, 4, "tiny", split=True)
            add("1d", 2, False, 3, "half-offset", split=True)
            add("1d-full", 2, False, 3, "unit", split=True)
            add("1d-full", 3, False, 2, "nonuniform", split=True, min_len=2)
            add("1d", 1, True, 5, "nonuniform", split=True)
            add("2d-full", 2, False, 2, "nonuniform", split=True)
            add("2d", 2, False, 3, "unit", split=True)
            add("3d-full", 2, False, 2, "unit", split=True)
    return out


def histories(block):
    T, L, dim = alphabet(block["alph"], block["phase"])
    F = frames_of(block, T)
    depth = block["depth"]
    first = block["first"]
    if first is None:
        yield []
        return
    if block.get("motion"):
        F1 = frames(5, 3, False)
        for f2 in F:
            yield [list(F1[first]), list(f2)]
        return
    firsts = F if first == "all" else [F[first]]
    lo = block.get("min_len", 1)
    for n in range(lo, depth + 1):
        for f0 in firsts:
            for rest in itertools.product(F, repeat=n - 1):
                yield [list(f0)] + [list(f) for f in rest]


def build(block, hist):
    """fresh library objects for a history"""
    from droplets import DiffuseDroplet, Emulsion, EmulsionTimeCourse, SphericalDroplet

    T, L, dim = alphabet(block["alph"], block["phase"])
    times = TIMES[block["times"]][: len(hist)]
    ems = []
    for fr in hist:
        # alternate the droplet class between types so that class information must survive as well
        ems.append(Emulsion([(DiffuseDroplet(np.array(T[i][0], float), T[i][1], 0.1 * (i + 1)) if block["alph"] in ("2d", "2d-full") else SphericalDroplet(np.array(T[i][0], float), T[i][1])) for i in fr]))
    if block.get("life"):
        # life cycles: the frames went through something before being tracked
        import copy
        import pickle

        life = block["life"]
        if life == "linked":  # members are rows of one shared array per frame
            for em in ems:
                if len(em) and len({type(d) for d in em}) == 1:
                    em.get_linked_data()
        elif life == "pickled":
            ems = [pickle.loads(pickle.dumps(em)) for em in ems]
        elif life == "deepcopied-members":
            ems = [Emulsion([copy.deepcopy(d) for d in em], copy=False) for em in ems]
        elif life == "rows":  # droplets rebuilt from the rows of the frame's plain data array
            ems = [Emulsion([type(em[0]).from_data(np.rec.array(em.data)[i]) for i in range(len(em))]) if len(em) and len({type(d) for d in em}) == 1 else em for em in ems]
    if block.get("how") == "ctor+append":
        # the first frames carry explicit stamps, the others are appended without one: the library's own stamps are used from there
        m = min(block["explicit"], len(ems))
        etc = EmulsionTimeCourse(ems[:m], times=list(times[:m]))
        for em in ems[m:]:
            etc.append(em)
        return etc, T, L, dim, list(etc.times)
    etc = EmulsionTimeCourse(ems, times=list(times))
    return etc, T, L, dim, list(times)


def snapshot(etc):
    return [(t, [(type(d).__name__, d.data.tobytes()) for d in e]) for t, e in zip(list(etc.times), etc.emulsions)]


def run_tracking(block, etc, L, dim):
    from droplets import DropletTrackList

    cfg = block["cfg"]
    grid = geom.make_grid(grid_spec(L, dim, periodic=cfg_mask(cfg, dim), origin=cfg_origin(cfg))) if cfg["grid"] else None
    kw = {}
    if cfg["method"] == "distance" and cfg["max_dist"] != "inf":
        kw["max_dist"] = cfg["max_dist"]
    elif cfg["method"] == "distance" and block["alph"].startswith("3d"):
        kw["max_dist"] = np.inf
    return DropletTrackList.from_emulsion_time_course(etc, method=cfg["method"], grid=grid, **kw)


def dist(cfg, L, dim, p, q):
    return geom.point_dist(grid_spec(L, dim, periodic=cfg_mask(cfg, dim)) if cfg["grid"] else None, p, q)


def identify(tracks, hist, T, times):
    """map every track entry to (frame index, slot index) by value; returns list of lists or None if not a partition"""
    pools = []
    for fi, fr in enumerate(hist):
        pools.append({si: (tuple(T[i][0]), T[i][1]) for si, i in enumerate(fr)})
    used = set()
    out = []
    for tr in tracks:
        ent = []
        for t, d in zip(tr.times, tr.droplets):
            if t not in times:
                return None
            fi = times.index(t)
            key = (tuple(float(x) for x in d.position), float(d.radius))
            cand = [si for si, v in pools[fi].items() if v == key and (fi, si) not in used]
            if not cand:
                return None
            used.add((fi, cand[0]))
            ent.append((fi, cand[0]))
        out.append(ent)
    if len(used) != sum(len(fr) for fr in hist):
        return None
    return out
