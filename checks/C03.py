"""C03 - a rendered phase field is a faithful, finite picture of the droplet.

Space (kind I): droplet class x compatible grid (Cartesian 1-3 dim with all masks and anisotropic spacing, polar,
spherical, cylindrical +-periodic) x width {None,0,0.5,1.3}*dx x (vmin,vmax) menu x centre class {generic sub-cell
lattice, exactly a cell centre, exactly a cell corner, one period outside} x radii x amplitude patterns {zero, every
single mode, every pair of modes}.  Reference: own cell-centre coordinates, own minimal-image vectors, own harmonic
series (mcx/harm.py, cross-checked against interface_distance).
"""
import itertools
import math

import numpy as np

from mcx import geom, harm

PID = "C03"
RULE = (
    "complete product of the declared class / grid / width / level / centre-class / radius / amplitude-pattern alphabets; every cell of "
    "every rendered field is judged (inside <=> value beyond the midpoint) except cells within 1e-9 of the interface or, for direction-"
    "dependent shapes, within 1e-9 of half a period from the centre (ambiguous direction); roll and sum clauses on all periodic "
    "shifts of a menu and all permutations of <= 3 droplets; non-trivial = droplet covers at least one cell and leaves one uncovered"
    " plus extreme widths (1e-3 and 1e3 cells), amplitudes on the bounds, centres one and three periods outside; histories (fresh fork): ordered pairs of grids differing in one attribute and four renderings on one shared grid object; axisymmetric perturbed droplets on 3-d Cartesian grids (axis through cell centres / corners); every ordered pair of amplitude counts rendered in one fresh process"
)
ASSUMPTIONS = [
    "parameters restricted to the declared lattices; perturbed shapes on polar/spherical grids are only checked for finiteness/range "
    "(direction of a radial cell is a convention)",
    "cylindrical grids with periodic z: cases in which the droplet reaches across the z boundary are expected to fail because py-pde 0.58 "
    "does not wrap z (known finding), they are tagged wraps_z",
]
LEVELS = [(0.0, 1.0), (0.2, 0.8), (-1.0, 1.0), (5.0, 2.0), (1.0, 2.0), (-1.0, 0.0)]  # incl. unit contrast off zero, and an inside value of exactly 0


def cart(shape, mask, dx, origin):
    return {"kind": "cart", "shape": list(shape), "dx": list(dx), "origin": list(origin), "periodic": list(mask)}


CART = {
    1: [((8,), [1.0], [0.0]), ((9,), [0.5], [-3.7])],
    2: [((7, 6), [1.0, 1.0], [0.0, 0.0]), ((6, 9), [1.6, 0.5], [-3.7, 2.25])],
    3: [((5, 6, 4), [1.0, 1.0, 1.0], [0.0, 0.0, 0.0]), ((5, 4, 7), [1.0, 1.6, 0.5], [2.25, 0.0, -3.7])],
}


def amp_patterns(nmodes, tier):
    pats = [[0.0] * nmodes]
    for i in range(nmodes):
        for a in (0.1, -0.3):
            p = [0.0] * nmodes
            p[i] = a
            pats.append(p)
    for i, j in itertools.combinations(range(nmodes), 2):
        p = [0.0] * nmodes
        p[i], p[j] = 0.2, -0.1
        pats.append(p)
    # amplitudes on the bounds of the valid range
    for a in (1.0, -1.0):
        p = [0.0] * nmodes
        p[0] = a
        pats.append(p)
        p = [0.0] * nmodes
        p[-1] = a
        pats.append(p)
    return pats


def blocks(tier, seed):
    ph = [0.0, 0.07, 0.13][seed % 3]
    out = []
    for dim in (1, 2, 3):
        for gi in range(2):
            for mask in itertools.product((False, True), repeat=dim):
                for cls in ("SphericalDroplet", "DiffuseDroplet"):
                    out.append({"kind": "cart-sph", "dim": dim, "gi": gi, "mask": list(mask), "cls": cls, "phase": ph})
    for gi in range(2):
        for mask in itertools.product((False, True), repeat=2):
            out.append({"kind": "cart-p2d", "gi": gi, "mask": list(mask), "phase": ph, "nmodes": 4 if tier != "thorough" else 6})
    for gi in range(2):
        for mask in itertools.product((False, True), repeat=3):
            if tier != "thorough" and gi == 1 and mask not in ((False, False, False), (True, True, True), (True, False, True)):
                continue
            out.append({"kind": "cart-p3d", "gi": gi, "mask": list(mask), "phase": ph, "nmodes": 8 if tier != "thorough" else 15})
    # axisymmetric perturbed droplets on 3-d Cartesian grids: symmetry axis through cell centres / through cell corners
    for gi in range(2):
        for mask in ((False, False, False), (True, True, True), (False, False, True), (True, True, False)):
            out.append({"kind": "cart-axisym", "gi": gi, "mask": list(mask), "phase": ph})
    # histories: droplets with different numbers of amplitudes rendered one after the other in a fresh process (every ordered pair)
    for cls, nmax in (("PerturbedDroplet2D", 5), ("PerturbedDroplet3D", 9 if tier != "thorough" else 16), ("PerturbedDroplet3DAxisSym", 4)):
        out.append({"kind": "modeseq", "cls": cls, "nmax": nmax, "phase": ph})
    for kind in ("polar", "sph"):
        out.append({"kind": "sym", "grid": {"kind": kind, "n": 9, "R": 4.5}, "phase": ph})
    for pz in (False, True):
        out.append({"kind": "cyl", "grid": {"kind": "cyl", "shape": [5, 9], "R": 4.0, "z": [-3.0, 6.0], "periodic_z": pz}, "phase": ph})
        out.append({"kind": "cyl", "grid": {"kind": "cyl", "shape": [4, 8], "R": 2.0, "z": [0.0, 6.4], "periodic_z": pz}, "phase": ph})
    out.append({"kind": "sum", "phase": ph})
    # grids with many cells (beyond any chunk / block size: 4096 < cells, not a multiple of a power of two), droplets reaching the last cells
    for shape in ((72, 72), (90, 50), (64, 65), (18, 18, 19), (130, 33)):
        for mask in ((False,) * len(shape), (True,) * len(shape)):
            out.append({"kind": "large", "shape": list(shape), "mask": list(mask), "phase": ph})
    out.append({"kind": "dim-mismatch"})
    # histories: droplets rendered one after the other on grids that differ in exactly one attribute, in every order, fresh process each
    for fam in ("cart", "cyl", "polar", "sph"):
        out.append({"kind": "gridseq", "family": fam, "phase": ph})
    return out


def centre_classes(g, R, ph):
    """list of (label, centre) for a Cartesian grid"""
    dim = len(g["shape"])
    lo, dx, n, per = g["origin"], g["dx"], g["shape"], g["periodic"]
    mid = [k // 2 for k in n]
    out = [
        ("generic", [lo[a] + (mid[a] + 0.31 + ph) * dx[a] for a in range(dim)]),
        ("generic2", [lo[a] + (mid[a] - 1 + 0.77 + ph) * dx[a] for a in range(dim)]),
        ("cell-centre", [lo[a] + (mid[a] + 0.5) * dx[a] for a in range(dim)]),
        ("cell-corner", [lo[a] + mid[a] * dx[a] for a in range(dim)]),
        ("near-low-boundary", [lo[a] + (0.3 + ph) * dx[a] for a in range(dim)]),
    ]
    if any(per):
        out.append(("one-period-outside", [lo[a] + (mid[a] + 0.31 + ph + (n[a] if per[a] else 0)) * dx[a] for a in range(dim)]))
        out.append(("three-periods-below", [lo[a] + (0.3 + ph - (3 * n[a] if per[a] else 0)) * dx[a] for a in range(dim)]))
    return out


def seq_probe(g, ph, cls):
    k = g["kind"]
    if k == "cart":
        R = 2.3 * max(g["dx"])
        c = [o + (n // 2 + 0.31 + ph) * d for o, n, d in zip(g["origin"], g["shape"], g["dx"])]
        spec = {"cls": cls, "grid": g, "centre": c, "R": R, "width": None if cls == "SphericalDroplet" else 0.8 * max(g["dx"]), "levels": LEVELS[0], "label": "generic"}
        if cls == "PerturbedDroplet2D":
            spec["amps"] = [0.2, -0.1]
        return spec
    if k == "cyl":
        dz = (g["z"][1] - g["z"][0]) / g["shape"][1]
        R = 2.1 * max(dz, g["R"] / g["shape"][0])
        return {"cls": "DiffuseDroplet", "grid": g, "centre": [0.0, 0.0, g["z"][0] + (g["shape"][1] // 2 + 0.31 + ph) * dz], "R": R, "width": 0.7 * dz, "levels": LEVELS[0], "label": "on-axis"}
    dr = g["R"] / g["n"]
    return {"cls": "DiffuseDroplet", "grid": g, "centre": [0.0] * geom.dim_of(g), "R": (4.3 + ph) * dr, "width": 0.8 * dr, "levels": LEVELS[0], "label": "centred"}


def cases(block):
    k = block["kind"]
    ph = block.get("phase", 0.0)
    if k == "gridseq":
        from checks import C01

        V = [g for g in C01.grid_variants(block["family"]) if not g.get("r0")]
        classes = ["SphericalDroplet", "DiffuseDroplet", "PerturbedDroplet2D"] if block["family"] == "cart" else ["DiffuseDroplet"]
        for cls in classes:
            for a, b in itertools.permutations(range(len(V)), 2):
                yield {"sequence": [seq_probe(V[a], ph, cls), seq_probe(V[b], ph, cls)]}
            if block["family"] == "cart":
                # the SAME droplet (reaching across the low boundary) on boxes that differ only in their periodicity, every ordered pair of masks
                for dim_ in ((1, 2) if cls == "PerturbedDroplet2D" else (1, 2, 3)):
                    if cls == "PerturbedDroplet2D" and dim_ != 2:
                        continue
                    shape, dx, org = CART[dim_][0]
                    masks = list(itertools.product((False, True), repeat=dim_))
                    for ma, mb in itertools.permutations(masks, 2):
                        pr = []
                        for m in (ma, mb):
                            g_ = cart(shape, m, dx, org)
                            sp = seq_probe(g_, ph, cls)
                            sp["centre"] = [o + (0.3 + ph) * d for o, d in zip(org, dx)]
                            sp["label"] = "near-low-boundary"
                            pr.append(sp)
                        yield {"sequence": pr}
            # the caller keeps ONE grid object and renders several droplets on it
            for gv in V:
                yield {"sequence": [dict(seq_probe(gv, ph + 0.05 * i, cls), share_grid=True) for i in range(4)]}
                if gv["kind"] == "cart":
                    # ... the first droplet centred EXACTLY on the coordinate origin (all coordinates zero)
                    first = dict(seq_probe(gv, ph, cls), share_grid=True, centre=[0.0] * len(gv["shape"]), label="coordinate-origin")
                    yield {"sequence": [first] + [dict(seq_probe(gv, ph + 0.05 * i, cls), share_grid=True) for i in range(1, 3)]}
        return
    if k == "cart-sph":
        dim = block["dim"]
        shape, dx, org = CART[dim][block["gi"]]
        g = cart(shape, block["mask"], dx, org)
        mdx = max(dx)
        for R in (1.7 * mdx, 2.4 * mdx, 0.3 * mdx):
            for label, c in centre_classes(g, R, ph):
                widths = [None] if block["cls"] == "SphericalDroplet" else [None, 0.0, 0.5 * mdx, 1.3 * mdx, 1e-3 * mdx, 1e3 * mdx]  # incl. extremely thin / wide
                for w in widths:
                    for lv in LEVELS:
                        yield {"cls": block["cls"], "grid": g, "centre": c, "R": R, "width": w, "levels": lv, "label": label}
    elif k in ("cart-p2d", "cart-p3d"):
        dim = 2 if k == "cart-p2d" else 3
        shape, dx, org = CART[dim][block["gi"]]
        g = cart(shape, block["mask"], dx, org)
        mdx = max(dx)
        cls = "PerturbedDroplet2D" if dim == 2 else "PerturbedDroplet3D"
        R = 1.9 * mdx if dim == 2 else 1.6 * mdx
        for label, c in centre_classes(g, R, ph):
            for amps in amp_patterns(block["nmodes"], None):
                for w in (0.0, 0.7 * mdx):
                    yield {"cls": cls, "grid": g, "centre": c, "R": R, "width": w, "levels": LEVELS[1] if w else LEVELS[0], "amps": amps, "label": label}
        yield {"cls": cls, "grid": g, "centre": centre_classes(g, R, ph)[0][1], "R": R, "width": None, "levels": LEVELS[3], "amps": amp_patterns(block["nmodes"], None)[-1], "label": "generic"}
    elif k == "cart-axisym":
        shape, dx, org = [((5, 5, 6), [1.0, 1.0, 1.0], [-2.5, -2.5, -1.0]), ((4, 6, 7), [1.5, 1.0, 0.5], [-3.0, -3.0, 2.25])][block["gi"]]
        g = cart(shape, block["mask"], dx, org)
        mdx = max(dx)
        R = 1.5 * mdx if block["gi"] else 1.9
        nz = shape[2]
        zs = [("generic", org[2] + (nz // 2 + 0.31 + ph) * dx[2]), ("cell-centre", org[2] + (nz // 2 + 0.5) * dx[2]), ("cell-corner", org[2] + (nz // 2) * dx[2])]
        if block["mask"][2]:
            zs.append(("one-period-outside", org[2] + (nz // 2 + 0.31 + ph + nz) * dx[2]))
        for label, z in zs:
            for amps in amp_patterns(4, None):
                for w in (0.0, 0.7 * mdx):
                    yield {"cls": "PerturbedDroplet3DAxisSym", "grid": g, "centre": [0.0, 0.0, z], "R": R, "width": w, "levels": LEVELS[1] if w else LEVELS[0], "amps": amps, "label": label}
    elif k == "modeseq":
        cls = block["cls"]
        if cls == "PerturbedDroplet2D":
            g = cart((7, 6), (True, False), [1.0, 1.0], [0.0, 0.0])
            c, R = [3.31 + ph, 2.77], 1.9
        elif cls == "PerturbedDroplet3D":
            g = cart((5, 6, 5), (False, True, False), [1.0, 1.0, 1.0], [0.0, 0.0, 0.0])
            c, R = [2.31 + ph, 2.77, 2.4], 1.6
        else:
            g = {"kind": "cyl", "shape": [5, 9], "R": 4.0, "z": [-3.0, 6.0], "periodic_z": False}
            c, R = [0.0, 0.0, 1.31 + ph], 2.2

        def amps_n(n):
            a = [0.03 * (1 + i % 3) * (-1) ** i for i in range(n)]
            a[-1] = 0.2
            return a

        for n1 in range(1, block["nmax"] + 1):
            for n2 in range(1, block["nmax"] + 1):
                if n1 != n2:
                    yield {"sequence": [{"cls": cls, "grid": g, "centre": c, "R": R, "width": 0.0, "levels": LEVELS[0], "amps": amps_n(n), "label": "generic"} for n in (n1, n2)], "modeseq": True}
    elif k == "sym":
        g = block["grid"]
        dim = 2 if g["kind"] == "polar" else 3
        for i in range(12):
            R = 0.2 + 4.0 * (i + 0.37 + ph) / 12
            for cls, w in (("SphericalDroplet", None), ("DiffuseDroplet", None), ("DiffuseDroplet", 0.0), ("DiffuseDroplet", 0.6)):
                for lv in LEVELS[:2] + LEVELS[3:]:
                    yield {"cls": cls, "grid": g, "centre": [0.0] * dim, "R": R, "width": w, "levels": lv, "label": "centred"}
            pcls = "PerturbedDroplet2D" if dim == 2 else "PerturbedDroplet3D"
            for amps in ([0.1, -0.2], [0.0, 0.0, 0.3]):
                yield {"cls": pcls, "grid": g, "centre": [0.0] * dim, "R": R, "width": 0.5, "levels": LEVELS[0], "amps": amps, "label": "centred", "range_only": True}
    elif k == "cyl":
        g = block["grid"]
        dz = (g["z"][1] - g["z"][0]) / g["shape"][1]
        dr = g["R"] / g["shape"][0]
        for R in (1.6 * max(dr, dz), 2.2 * max(dr, dz)):
            zs = [("interior", g["z"][0] + (g["shape"][1] // 2 + 0.31 + ph) * dz), ("cell-centre", g["z"][0] + (g["shape"][1] // 2 + 0.5) * dz),
                  ("cell-corner", g["z"][0] + (g["shape"][1] // 2) * dz), ("near-low-boundary", g["z"][0] + (0.3 + ph) * dz), ("near-high-boundary", g["z"][1] - (0.8 + ph) * dz)]
            if g["periodic_z"]:
                zs.append(("one-period-outside", g["z"][0] + (g["shape"][1] // 2 + 0.31 + ph) * dz + (g["z"][1] - g["z"][0])))
            for label, z in zs:
                c = [0.0, 0.0, z]
                for cls, w in (("SphericalDroplet", None), ("DiffuseDroplet", None), ("DiffuseDroplet", 0.0), ("DiffuseDroplet", 0.6 * dz)):
                    for lv in LEVELS[:1] + LEVELS[3:]:
                        yield {"cls": cls, "grid": g, "centre": c, "R": R, "width": w, "levels": lv, "label": label}
                for amps in amp_patterns(4, None):
                    for w in (0.0, 0.7 * dz):
                        yield {"cls": "PerturbedDroplet3DAxisSym", "grid": g, "centre": c, "R": R, "width": w, "levels": LEVELS[0], "amps": amps, "label": label}
    elif k == "sum":
        for mask in itertools.product((False, True), repeat=2):
            g = cart((8, 7), mask, [1.0, 1.0], [0.0, 0.0])
            pool = [
                {"cls": "SphericalDroplet", "centre": [2.3 + ph, 3.1], "R": 1.8},
                {"cls": "DiffuseDroplet", "centre": [3.9 + ph, 3.4], "R": 2.1, "width": 0.8},
                {"cls": "PerturbedDroplet2D", "centre": [6.8 + ph, 0.6], "R": 1.7, "width": 0.5, "amps": [0.2, -0.1]},
                {"cls": "DiffuseDroplet", "centre": [2.9 + ph, 2.7], "R": 1.2, "width": 0.0},
                # centres outside the box: whole periods away / just beyond the boundary (periodic images re-enter the box)
                {"cls": "DiffuseDroplet", "centre": [5.1 + ph - 8.0, 5.2 + 14.0], "R": 1.3, "width": 0.0},
                {"cls": "SphericalDroplet", "centre": [-2.4 + ph, 9.3], "R": 1.4},
                {"cls": "DiffuseDroplet", "centre": [6.1 + ph + 16.0, 1.2], "R": 1.5, "width": 0.6},
            ]
            for n in (0, 1, 2, 3):
                for sub in itertools.combinations(range(len(pool)), n):
                    yield {"kind": "sum", "grid": g, "drops": [pool[i] for i in sub]}
        g = cart((9,), (True,), [0.5], [-3.7])
        pool = [{"cls": "SphericalDroplet", "centre": [-2.0 + ph], "R": 0.9}, {"cls": "DiffuseDroplet", "centre": [-1.2 + ph], "R": 0.7, "width": 0.3}, {"cls": "DiffuseDroplet", "centre": [0.6 + ph], "R": 0.6, "width": None}]
        for n in (1, 2, 3):
            for sub in itertools.combinations(range(3), n):
                yield {"kind": "sum", "grid": g, "drops": [pool[i] for i in sub]}
        g = {"kind": "cyl", "shape": [5, 9], "R": 4.0, "z": [-3.0, 6.0], "periodic_z": False}
        pool = [{"cls": "SphericalDroplet", "centre": [0, 0, 0.2 + ph], "R": 1.8}, {"cls": "DiffuseDroplet", "centre": [0, 0, 1.9 + ph], "R": 1.5, "width": 0.6}, {"cls": "PerturbedDroplet3DAxisSym", "centre": [0, 0, 3.0 + ph], "R": 1.6, "width": 0.5, "amps": [0.1, 0.2]}]
        for n in (2, 3):
            for sub in itertools.combinations(range(3), n):
                yield {"kind": "sum", "grid": g, "drops": [pool[i] for i in sub]}
        # cylindrical boxes whose z range lies far away from 0 (a Cartesian component of the position is not a grid coordinate)
        for z0 in (10.0, -30.0):
            g = {"kind": "cyl", "shape": [5, 9], "R": 4.0, "z": [z0, z0 + 9.0], "periodic_z": False}
            pool = [{"cls": "SphericalDroplet", "centre": [0, 0, z0 + 3.2 + ph], "R": 1.8}, {"cls": "DiffuseDroplet", "centre": [0, 0, z0 + 4.9 + ph], "R": 1.5, "width": 0.6},
                    {"cls": "PerturbedDroplet3DAxisSym", "centre": [0, 0, z0 + 6.0 + ph], "R": 1.6, "width": 0.5, "amps": [0.1, 0.2]}, {"cls": "DiffuseDroplet", "centre": [0, 0, z0 + 7.5 + ph], "R": 1.2, "width": 0.0}]
            for n in (1, 2, 3):
                for sub in itertools.permutations(range(4), n):
                    yield {"kind": "sum", "grid": g, "drops": [pool[i] for i in sub]}
    elif k == "large":
        shape = block["shape"]
        dim = len(shape)
        g = cart(shape, block["mask"], [1.0] * dim, [0.0] * dim)
        R = 6.3 if dim == 2 else 4.2
        cents = [("generic", [n // 2 + 0.31 + ph for n in shape]), ("near-high-boundary", [n - R - 1.2 + ph for n in shape]), ("near-low-boundary", [R + 1.3 + ph] * dim)]
        if block["mask"][0]:
            cents.append(("across-high-boundary", [n - 0.4 * R + ph for n in shape]))
        for label, c in cents:
            for cls, amps in ((("PerturbedDroplet2D", [0.15, -0.1]), ("PerturbedDroplet2D", [0.0, 0.0, 0.2, 0.1]), ("DiffuseDroplet", None), ("SphericalDroplet", None)) if dim == 2 else
                              (("PerturbedDroplet3D", [0.0, 0.2, 0.0, 0.1]), ("PerturbedDroplet3DAxisSym", [0.1, 0.2]), ("DiffuseDroplet", None))):
                if cls == "PerturbedDroplet3DAxisSym":
                    c = [0.0, 0.0, c[2]] if not block["mask"][0] else c
                    if block["mask"][0]:
                        continue
                for w in (0.0, 0.9):
                    spec = {"cls": cls, "grid": g, "centre": c, "R": R, "width": w if cls != "SphericalDroplet" else None, "levels": LEVELS[1] if w else LEVELS[0], "label": label, "large": True}
                    if amps is not None:
                        spec["amps"] = amps
                    if cls == "SphericalDroplet" and w:
                        continue
                    yield spec
    elif k == "dim-mismatch":
        grids = {1: cart((8,), (True,), [1.0], [0.0]), 2: cart((7, 6), (True, False), [1.0, 1.0], [0.0, 0.0]), 3: cart((5, 6, 4), (False, False, True), [1.0] * 3, [0.0] * 3),
                 "polar": {"kind": "polar", "n": 9, "R": 4.5}, "sph": {"kind": "sph", "n": 9, "R": 4.5}, "cyl": {"kind": "cyl", "shape": [5, 9], "R": 4.0, "z": [-3.0, 6.0], "periodic_z": False}}
        for gk, g in grids.items():
            for cls, ddim in (("SphericalDroplet", 1), ("SphericalDroplet", 2), ("SphericalDroplet", 3), ("DiffuseDroplet", 1), ("DiffuseDroplet", 2), ("DiffuseDroplet", 3),
                              ("PerturbedDroplet2D", 2), ("PerturbedDroplet3D", 3), ("PerturbedDroplet3DAxisSym", 3)):
                if ddim != geom.dim_of(g):
                    yield {"kind": "dim-mismatch", "grid": g, "cls": cls, "ddim": ddim}


def make_drop(spec, centre=None):
    from droplets import droplets as dm

    cls = getattr(dm, spec["cls"])
    c = np.array(spec["centre"] if centre is None else centre, float)
    if spec["cls"] == "SphericalDroplet":
        return cls(c, spec["R"])
    if spec["cls"] == "DiffuseDroplet":
        return cls(c, spec["R"], spec.get("width"))
    return cls(c, spec["R"], spec.get("width"), np.array(spec["amps"], float))


def reference(g, spec, centre=None):
    """returns (d, rho, ambiguous mask): distance of each cell centre, interface distance in its direction"""
    c = list(spec["centre"] if centre is None else centre)
    kind = g["kind"]
    cls = spec["cls"]
    R = spec["R"]
    amb = None
    if kind == "cart":
        diff = geom.cart_diff(g, c)
        d = np.linalg.norm(diff, axis=-1)
        if cls.startswith("Perturbed"):
            L = geom.cart_lengths(g)
            amb = np.zeros(d.shape, bool)
            for a in range(len(L)):
                if g["periodic"][a]:
                    amb |= np.abs(np.abs(diff[..., a]) - L[a] / 2) <= 1e-9 * L[a]
            if cls == "PerturbedDroplet2D":
                rho = harm.rho2d(R, spec["amps"], np.arctan2(diff[..., 1], diff[..., 0]))
            elif cls == "PerturbedDroplet3DAxisSym":
                theta = np.arctan2(np.hypot(diff[..., 0], diff[..., 1]), diff[..., 2])  # polar angle in [0, pi], pi exactly below the centre
                rho = harm.rho_axisym(R, spec["amps"], theta)
            else:
                with np.errstate(invalid="ignore", divide="ignore"):
                    theta = np.arccos(np.clip(np.where(d > 0, diff[..., 2] / np.where(d > 0, d, 1.0), 1.0), -1, 1))
                rho = harm.rho3d(R, spec["amps"], theta, np.arctan2(diff[..., 1], diff[..., 0]))
        else:
            rho = np.full(d.shape, R)
    elif kind in ("polar", "sph"):
        d = geom.sym_dist(g, c)
        rho = np.full(d.shape, R)
    else:
        d = geom.sym_dist(g, c)
        if cls == "PerturbedDroplet3DAxisSym":
            nr, nz = g["shape"]
            Lz = g["z"][1] - g["z"][0]
            z = g["z"][0] + (np.arange(nz) + 0.5) * Lz / nz
            dzv = geom.min_image(z - c[2], Lz, g["periodic_z"])
            r = (np.arange(nr) + 0.5) * g["R"] / nr
            theta = np.arctan2(r[:, None], dzv[None, :] + 0 * r[:, None])
            rho = harm.rho_axisym(R, spec["amps"], theta)
            amb = np.broadcast_to(np.abs(np.abs(dzv) - Lz / 2)[None, :] <= 1e-9 * Lz, d.shape) if g["periodic_z"] else None
        else:
            rho = np.full(d.shape, R)
    return d, rho, amb


def scale_of(g):
    if g["kind"] == "cart":
        return max(g["dx"])
    if g["kind"] == "cyl":
        return max(g["R"] / g["shape"][0], (g["z"][1] - g["z"][0]) / g["shape"][1])
    return g["R"] / g["n"]


def run_case(case, ctx):
    from droplets import Emulsion

    if "sequence" in case:
        from mcx import core

        ctx.count("mode-count-sequences" if case.get("modeseq") else "grid-sequences")
        return core.run_sequence_in_fork(run_case, case["sequence"], ctx, tag={"history": True})
    k = case.get("kind")
    g = case["grid"]
    grid = geom.make_grid(g, share=bool(case.get("share_grid")))
    if k == "dim-mismatch":
        spec = {"cls": case["cls"], "centre": [0.0] * case["ddim"], "R": 1.0, "width": 0.5, "amps": [0.1]}
        drop = make_drop(spec)
        try:
            drop.get_phase_field(grid)
            ctx.check("C03.dim", False, {"outcome": "no exception"})
        except ValueError:
            ctx.check("C03.dim", True)
        except Exception as e:  # noqa
            ctx.check("C03.dim", False, {"outcome": repr(e)})
        return
    if k == "sum":
        return run_sum(case, ctx, grid)
    spec = case
    cls = case["cls"]
    vmin, vmax = case["levels"]
    tags = {"grid": g["kind"], "cls": cls, "label": case["label"]}
    if g["kind"] == "cyl" and g["periodic_z"]:
        zlo, zhi = g["z"]
        ext = case["R"] * (1 + sum(abs(a) for a in case.get("amps", [])) * 0.7) + 2 * (zhi - zlo) / g["shape"][1] * (1 if case.get("width") is None else 1 + (case["width"] or 0))
        tags["wraps_z"] = bool(case["centre"][2] - ext < zlo or case["centre"][2] + ext > zhi)
    if cls == "PerturbedDroplet3DAxisSym" and g["kind"] == "cart":
        ctx.count("axisym-on-cartesian")
    drop = make_drop(spec)
    try:
        f = drop.get_phase_field(grid, vmin=vmin, vmax=vmax)
        ctx.op()
    except Exception as e:  # noqa
        ctx.check("C03.no-raise", False, {"exc": repr(e)[:300]}, tags)
        return
    v = np.asarray(f.data, float)
    ctx.check("C03.shape", v.shape == tuple(grid.shape), {"shape": v.shape}, tags)
    ctx.check("C03.finite", bool(np.all(np.isfinite(v))), {"nonfinite_cells": int(np.sum(~np.isfinite(v)))}, tags)
    lo, hi = min(vmin, vmax), max(vmin, vmax)
    ctx.check("C03.range", bool(np.all((v >= lo - 1e-12) & (v <= hi + 1e-12))), {"min": float(np.nanmin(v)), "max": float(np.nanmax(v)), "levels": [vmin, vmax]}, tags)
    if case.get("range_only"):
        return
    d, rho, amb = reference(g, spec)
    sc = scale_of(g)
    # cross-check the harmonic series against the library's own shape function (ties the oracle to the shape used)
    if cls.startswith("Perturbed") and g["kind"] == "cart":
        probe = np.linspace(0.1, 3.0, 5)
        if cls == "PerturbedDroplet2D":
            ok = np.allclose(drop.interface_distance(probe), harm.rho2d(case["R"], case["amps"], probe), rtol=1e-12, atol=0)
        elif cls == "PerturbedDroplet3DAxisSym":
            probe = np.array([0.0, 0.4, 1.3, 2.9, math.pi])
            ok = np.allclose(drop.interface_distance(probe), harm.rho_axisym(case["R"], case["amps"], probe), rtol=1e-12, atol=0)
        else:
            ok = np.allclose(drop.interface_distance(probe, probe[::-1] * 2), harm.rho3d(case["R"], case["amps"], probe, probe[::-1] * 2), rtol=1e-12, atol=0)
        ctx.check("C03.shape-function", bool(ok), None, tags)
    inside = d < rho
    knife = np.abs(d - rho) <= 1e-9 * sc
    if amb is not None:
        knife = knife | amb
    # for direction-dependent shapes the value of a cell sitting on the droplet centre depends on an undefined direction:
    # such cells are excluded from the translation comparison (their inside/outside status is still judged)
    centre_cell = (d <= 1e-9 * sc) if cls.startswith("Perturbed") else np.zeros(d.shape, bool)
    mid = 0.5 * (vmin + vmax)
    sgn = 1.0 if vmax > vmin else -1.0
    beyond = (v - mid) * sgn > 0
    bad = (beyond != inside) & ~knife
    eq_unwrapped = None
    if g["kind"] == "cyl" and g["periodic_z"]:
        # the recorded dependency finding is specific: z is not wrapped.  Only pictures that equal the rendering on the same
        # grid WITHOUT periodicity are attributed to it; any other deviation is reported as a new violation.
        g_np = dict(g, periodic_z=False)
        d_n, rho_n, _ = reference(g_np, spec)
        eq_unwrapped = not (((beyond != (d_n < rho_n)) & ~(np.abs(d_n - rho_n) <= 1e-9 * sc)).any())
        if tags.get("wraps_z"):
            tags["equals_unwrapped_render"] = bool(eq_unwrapped)
    if inside.any() and (~inside).any():
        ctx.count("covers-some-but-not-all-cells")
    ctx.check("C03.inside", not bad.any(), {"cells": np.argwhere(bad)[:5], "d": d[bad][:5], "rho": rho[bad][:5], "value": v[bad][:5], "centre": case["centre"]}, tags)
    w = case.get("width")
    if cls == "SphericalDroplet" or w == 0.0:
        exp = np.where(inside, vmax, vmin)
        badi = (v != exp) & ~knife
        ctx.check("C03.indicator", not badi.any(), {"cells": np.argwhere(badi)[:5], "value": v[badi][:5]}, tags)
    tprof = tags
    if cls in ("SphericalDroplet", "DiffuseDroplet") and eq_unwrapped is not None:
        # value-level attribution for the profile / monotone clauses: the tanh tail reaches ~15 widths, further than the
        # inside/outside picture; the recorded finding covers exactly the pictures that equal the rendering without periodicity
        ww_ = sc_typ(grid) if (cls == "SphericalDroplet" or case.get("width") is None) else case.get("width")
        if cls == "SphericalDroplet" or not ww_:
            exp_w = np.where(d < rho, vmax, vmin)
            exp_n = np.where(d_n < rho_n, vmax, vmin)
        else:
            exp_w = vmin + (vmax - vmin) * (0.5 + 0.5 * np.tanh((rho - d) / ww_))
            exp_n = vmin + (vmax - vmin) * (0.5 + 0.5 * np.tanh((rho_n - d_n) / ww_))
        tol_ = 1e-12 * max(1.0, hi - lo, abs(hi), abs(lo))
        if np.any(np.abs(exp_w - exp_n) > tol_):
            knife_n = np.abs(d_n - rho_n) <= 1e-9 * sc
            tprof = dict(tags, wraps_z=True, equals_unwrapped_render=bool(np.all((np.abs(v - exp_n) <= tol_) | knife_n)))
    if cls in ("SphericalDroplet", "DiffuseDroplet"):
        order = np.argsort(d, axis=None, kind="stable")
        dv, vv = d.ravel()[order], (v.ravel()[order] - mid) * sgn
        # value must not increase with distance (cells at numerically equal distance may differ by rounding only)
        inc = (np.diff(vv) > 1e-13 * (hi - lo)) & (np.diff(dv) > 1e-9 * sc)
        ctx.check("C03.monotone", not inc.any(), {"at": np.flatnonzero(inc)[:5]}, tprof)
        if cls == "DiffuseDroplet" and w not in (0.0,):
            ww = sc_typ(grid) if w is None else w
            exp = vmin + (vmax - vmin) * (0.5 + 0.5 * np.tanh((rho - d) / ww))
            ctx.check("C03.profile", bool(np.allclose(v, exp, rtol=0, atol=1e-12 * max(1.0, hi - lo, abs(hi), abs(lo)))), {"maxdiff": float(np.max(np.abs(v - exp)))}, tprof)
    # translation by whole cells along periodic axes.  Distances are recomputed from shifted coordinates, i.e. change by a few ulp;
    # a thin interface amplifies that by distance / width (tanh argument), so the tolerance scales with it
    w_eff = (sc_typ(grid) if w is None else w) if cls != "SphericalDroplet" else 0.0
    rtol_roll = 1e-12 if not w_eff else max(1e-12, 16 * np.finfo(float).eps * float(np.max(d) + 3 * sc * max(g.get("shape", [1]))) / w_eff)
    if g["kind"] == "cart" and any(g["periodic"]):
        per = [a for a in range(len(g["shape"])) if g["periodic"][a]]
        if cls == "PerturbedDroplet3DAxisSym":
            per = [a for a in per if a == 2]  # the droplet must stay on the z axis
        for shift in ([1] * len(per), [g["shape"][a] - 2 for a in per], [-(g["shape"][a] + 1) for a in per]):
            c2 = list(case["centre"])
            sh = [0] * len(g["shape"])
            for a, m in zip(per, shift):
                c2[a] += m * g["dx"][a]
                sh[a] = m
            f2 = make_drop(spec, c2).get_phase_field(grid, vmin=vmin, vmax=vmax)
            ctx.op()
            want = np.roll(v, sh, axis=tuple(range(v.ndim)))
            diffm = np.abs(np.asarray(f2.data) - want) > rtol_roll * max(1.0, abs(hi), abs(lo))
            # cells that are knife-edges in either picture are excluded
            d2, rho2, amb2 = reference(g, spec, c2)
            k2 = np.abs(d2 - rho2) <= 1e-9 * sc
            if amb2 is not None:
                k2 = k2 | amb2
            k2 = k2 | np.roll(knife | centre_cell, sh, axis=tuple(range(v.ndim)))
            if cls.startswith("Perturbed"):
                k2 = k2 | (d2 <= 1e-9 * sc)
            diffm &= ~k2
            ctx.check("C03.roll", not diffm.any(), {"shift": sh, "cells": np.argwhere(diffm)[:5]}, tags)
    elif g["kind"] == "cyl" and g["periodic_z"]:
        nz = g["shape"][1]
        dz = (g["z"][1] - g["z"][0]) / nz
        for m in (1, nz - 2):
            c2 = list(case["centre"])
            c2[2] += m * dz
            f2 = make_drop(spec, c2).get_phase_field(grid, vmin=vmin, vmax=vmax)
            ctx.op()
            want = np.roll(v, m, axis=1)
            diffm = np.abs(np.asarray(f2.data) - want) > rtol_roll * max(1.0, abs(hi), abs(lo))
            d2, rho2, amb2 = reference(g, spec, c2)
            k2 = (np.abs(d2 - rho2) <= 1e-9 * sc) | np.roll(knife | centre_cell, m, axis=1)
            if cls.startswith("Perturbed"):
                k2 = k2 | (d2 <= 1e-9 * sc)
            if amb2 is not None:
                k2 = k2 | amb2
            diffm &= ~k2
            d_n2, rho_n2, _ = reference(dict(g, periodic_z=False), spec, c2)
            beyond2 = (np.asarray(f2.data, float) - mid) * sgn > 0
            eq2 = not (((beyond2 != (d_n2 < rho_n2)) & ~(np.abs(d_n2 - rho_n2) <= 1e-9 * sc)).any())
            # a whole-cell translation moves the droplet across the boundary for at least one of the two pictures
            eqv = unwrapped_picture(g, spec, grid, vmin, vmax, v) and unwrapped_picture(g, spec, grid, vmin, vmax, f2.data, c2)
            t2 = dict(tags, wraps_z=True, equals_unwrapped_render=bool(eqv))
            ctx.check("C03.roll", not diffm.any(), {"shift": m, "cells": np.argwhere(diffm)[:5]}, t2)


def unwrapped_picture(g, spec, grid, vmin, vmax, v, centre=None):
    """True when the field v equals (value by value, knife-edge cells excepted) the rendering of the droplet on the same
    cylindrical grid WITHOUT periodicity - the recorded dependency defect"""
    d_n, rho_n, _ = reference(dict(g, periodic_z=False), spec, centre)
    w = spec.get("width")
    if spec["cls"] == "SphericalDroplet":
        w = 0.0
    elif w is None:
        w = sc_typ(grid)
    if w:
        exp_n = vmin + (vmax - vmin) * (0.5 + 0.5 * np.tanh((rho_n - d_n) / w))
    else:
        exp_n = np.where(d_n < rho_n, vmax, vmin)
    lo, hi = min(vmin, vmax), max(vmin, vmax)
    tol_ = 1e-12 * max(1.0, hi - lo, abs(hi), abs(lo))
    knife_n = np.abs(d_n - rho_n) <= 1e-9 * scale_of(g)
    if spec["cls"].startswith("Perturbed"):
        knife_n = knife_n | (d_n <= 1e-9 * scale_of(g))
    return bool(np.all((np.abs(np.asarray(v, float) - exp_n) <= tol_) | knife_n))


def sc_typ(grid):
    return float(grid.typical_discretization)


def run_sum(case, ctx, grid):
    from droplets import Emulsion

    g = case["grid"]
    drops = [make_drop(s) for s in case["drops"]]
    tags = {"grid": g["kind"], "cls": "emulsion", "label": "sum"}
    singles = [np.asarray(d.get_phase_field(grid).data, float) for d in drops]
    ctx.op(len(drops))
    want = np.clip(sum(singles) if singles else np.zeros(grid.shape), 0, 1)
    first = None
    for perm in itertools.permutations(range(len(drops))):
        em = Emulsion([drops[i] for i in perm])
        f = np.asarray(em.get_phasefield(grid).data, float)
        ctx.op()
        ctx.check("C03.sum", f.shape == want.shape and bool(np.allclose(f, want, rtol=0, atol=1e-12)), {"perm": perm, "maxdiff": float(np.max(np.abs(f - want))) if f.shape == want.shape else None}, tags)
        if first is None:
            first = f
        ctx.check("C03.sum-order", bool(np.allclose(f, first, rtol=0, atol=1e-12)), {"perm": perm}, tags)
    if len(drops) >= 2 and np.any(sum(singles) > 1 + 1e-9):
        ctx.count("sum-needs-clipping")


def expected_positive(tier):
    return ["C03.finite", "C03.range", "C03.inside", "C03.indicator", "C03.monotone", "C03.profile", "C03.roll", "C03.sum", "C03.dim", "C03.shape-function",
            "covers-some-but-not-all-cells", "sum-needs-clipping", "grid-sequences", "mode-count-sequences", "axisym-on-cartesian"]
