"""C10 - overlap removal leaves a separated subset and distance queries agree.

Space (kind I): ALL ordered emulsions of up to 3 (thorough: 4 in 1-D) droplets drawn from a small lattice of
(position, radius) types in 1-3 dimensions (tied radii and coincident centres included) x min_distance in {0, 0.5, -0.3}
x metric in {none, fully periodic grid, partially periodic grid, non-periodic grid}; plus a finite catalogue of
Emulsion.from_random calls with seeded generators.
"""
import itertools
import math

import numpy as np

from mcx import geom

PID = "C10"
RULE = (
    "all ordered tuples (length 0..3, 4 for 1-D thorough) over the droplet-type lattice x all min_distance values x all metrics; "
    "reference: own minimal-image distance matrix; non-trivial = at least one pair closer than min_distance; "
    "from_random: seeds 0..15 (31 thorough) x {grid, bounds} x dim 1-3 x radius spec, enumerated completely"
    "; boxes are non-cubic; a disparate-radius family (0.01 / 2.0) and a perturbed-member family; from_random also with polar, spherical (annular) and cylindrical regions"
)
ASSUMPTIONS = [
    "droplet types restricted to the lattice; surface distances within 1e-9 of min_distance / of zero are treated as ambiguous",
    "periodic metrics only on Cartesian grids (py-pde's cylindrical periodic distance is unreliable and not used by the oracle)",
]
TOL = 1e-9
MIND = [0.0, 0.5, -0.3]


def types(dim, ph):
    if dim == "2p":  # perturbed droplets: the order by volume differs from the order by radius
        return [([x + ph, y], r, a) for x in (0.5, 2.2) for y in (0.5, 2.2) for (r, a) in ((1.0, [0.5, 0.5]), (1.05, [0.0, 0.0]), (0.7, [0.0, -0.9]))]
    if dim == "2x":  # strongly disparate radii: a tiny droplet between two big overlapping ones
        return [([x + ph, y], r) for x in (0.5, 2.2, 4.1) for y in (0.5, 2.2, 4.1) for r in (0.01, 2.0)]
    if dim in ("1xc", "1xC"):  # disparate radii on a line; run_case adds 9 (70) far-away fillers: more droplets than any small-collection threshold
        return [([p + ph], r) for p in (-6.0, 0.0, 4.0, 7.0, 10.5) for r in (0.3, 3.0, 5.0)]
    if dim == "1o":  # the 1-d lattice far away from the coordinate origin: |position| / separation ~ 1e8
        return [([FAR + p + ph], r) for p in (0.5, 1.5, 2.75, 4.0, 5.25) for r in (0.375, 0.75, 1.25)]
    if dim == "2o":
        return [([FAR + x + ph, -FAR + y], r) for x in (0.5, 2.25, 4.0) for y in (0.5, 2.25, 4.0) for r in (0.375, 1.0)]
    if dim == 1:
        return [([p + ph], r) for p in (0.4, 1.5, 2.7, 3.9, 5.2) for r in (0.4, 0.7, 1.2)]
    if dim == 2:
        return [([x + ph, y], r) for x in (0.5, 2.2, 4.1) for y in (0.5, 2.2, 4.1) for r in (0.4, 0.9)]
    return [([x + ph, y, z], r) for x in (0.6, 2.9) for y in (0.6, 2.9) for z in (0.6, 2.9) for r in (0.5, 1.3)]


FAR = 2.0**27  # 1.3e8, exactly representable; lattice offsets below are dyadic, so every position is exact


def fillers(dim):
    n = {"1xc": 9, "1xC": 70}[dim]
    return [([200.0 + 30.0 * k], 1.0 + 0.25 * (k % 7)) for k in range(n)]


def metrics(dim):
    if dim in ("1xc", "1xC"):
        return [None]
    if dim in ("1o", "2o"):
        n = 1 if dim == "1o" else 2
        org = [FAR, -FAR][:n]
        return [None, {"kind": "cart", "shape": [6, 7][:n], "dx": [1.0] * n, "origin": org, "periodic": [True] * n}]
    # non-cubic boxes: every axis has its own period, so a mix-up of per-axis lengths changes minimal-image distances
    shape = {1: [6], 2: [5, 7], 3: [4, 5, 6], "2x": [5, 7], "2p": [5, 7]}[dim]
    out = [None]
    masks = {1: [(True,), (False,)], 2: [(True, True), (True, False), (False, True), (False, False)],
             3: [(True, True, True), (False, True, False), (True, False, True), (False, False, True)], "2x": [(True, True)], "2p": [(True, False)]}[dim]
    for m in masks:
        out.append({"kind": "cart", "shape": list(shape), "dx": [1.0] * len(shape), "origin": [0.0] * len(shape), "periodic": list(m)})
    return out


def blocks(tier, seed):
    ph = [0.0, 0.05, 0.11][seed % 3]
    out = []
    for dim in (1, 2, 3, "2x", "2p", "1o", "2o", "1xc", "1xC"):
        nmax = 4 if ((tier == "thorough" and dim == 1) or dim == "1xc") else (2 if dim == "1xC" else 3)
        for gi, g in enumerate(metrics(dim)):
            for md in MIND:
                nt = len(types(dim, ph))
                for first in range(nt):
                    out.append({"kind": "lattice", "dim": dim, "metric": g, "min_distance": md, "first": first, "nmax": nmax, "phase": ph})
                out.append({"kind": "lattice", "dim": dim, "metric": g, "min_distance": md, "first": None, "nmax": 0, "phase": ph})
    for dim in (1, 2, 3):
        out.append({"kind": "random", "dim": dim, "seeds": 32 if tier == "thorough" else 16})
    return out


def cases(block):
    if block["kind"] == "random":
        dim = block["dim"]
        for seed in range(block["seeds"]):
            for region in ("grid", "grid-periodic", "bounds") + (("polar", "sph", "sph-annular", "cyl") if dim == 1 else ()):
                for radius in (0.7, (0.3, 1.1), (0.5, 0.5)):
                    for num in (0, 1, 7):
                        yield {"kind": "random", "dim": dim, "rng": seed, "region": region, "radius": radius, "num": num}
        return
    dim, nmax = block["dim"], block["nmax"]
    T = types(dim, block["phase"])
    base = {"kind": "lattice", "dim": dim, "metric": block["metric"], "min_distance": block["min_distance"], "phase": block["phase"]}
    if block["first"] is None:
        yield dict(base, members=[])
        return
    f = block["first"]
    for n in range(1, nmax + 1):
        if dim == "1xc" and n == 4:  # four core members: unordered selections of distinct types
            for rest in itertools.combinations(range(f + 1, len(T)), 3):
                yield dict(base, members=[f] + list(rest))
            continue
        for rest in itertools.product(range(len(T)), repeat=n - 1):
            yield dict(base, members=[f] + list(rest))


def run_case(case, ctx):
    from droplets import Emulsion, SphericalDroplet

    if case["kind"] == "random":
        return run_random(case, ctx)
    dim, g, md = case["dim"], case["metric"], case["min_distance"]
    T = types(dim, case["phase"])
    spec = [T[i] for i in case["members"]]
    if dim == "2p":
        from droplets.droplets import PerturbedDroplet2D

        drops = [PerturbedDroplet2D(np.array(p, float), r, None, np.array(a, float)) for p, r, a in spec]
        spec = [(p, r) for p, r, a in spec]
        ctx.count("perturbed-members")
    else:
        if dim in ("1xc", "1xC"):
            spec = spec + fillers(dim)
            ctx.count("emulsions-with-more-than-8-droplets")
        drops = [SphericalDroplet(np.array(p, float), r) for p, r in spec]
    grid = geom.make_grid(g) if g else None
    n = len(drops)
    tags = {"metric": "none" if g is None else "".join("p" if p else "n" for p in g["periodic"])}
    # reference distances
    D = np.zeros((n, n))
    if g is None and n > 8:
        P = np.array([p for p, _ in spec], float)
        D = np.sqrt(((P[:, None, :] - P[None, :, :]) ** 2).sum(axis=-1))
    else:
        for i in range(n):
            for j in range(n):
                if i != j:
                    D[i, j] = geom.point_dist(g, spec[i][0], spec[j][0])
    Rs = np.array([r for _, r in spec])
    S = D - Rs[:, None] - Rs[None, :]
    np.fill_diagonal(S, 0.0)

    em = Emulsion(drops, copy=False)
    # --- distance matrix ------------------------------------------------
    M = em.get_pairwise_distances(grid=grid)
    Ms = em.get_pairwise_distances(subtract_radius=True, grid=grid)
    ctx.op(2)
    ok = M.shape == (n, n) and np.allclose(M, M.T, rtol=0, atol=0) and np.all(np.diag(M) == 0) and np.allclose(M, D, rtol=1e-12, atol=1e-12)
    ctx.check("C10.matrix", bool(ok), {"got": M, "want": D}, tags)
    ok = Ms.shape == (n, n) and np.allclose(Ms, Ms.T, rtol=0, atol=0) and np.all(np.diag(Ms) == 0) and np.allclose(Ms, S, rtol=1e-12, atol=1e-12)
    ctx.check("C10.matrix", bool(ok), {"got": Ms, "want": S, "subtract_radius": True}, tags)
    # --- overlap predicate ------------------------------------------------
    ncore = len(case["members"]) if dim in ("1xc", "1xC") else n  # filler-filler pairs are all alike: not queried one by one
    for i in range(n):
        for j in range(n):
            if i != j and abs(S[i, j]) > TOL and (i < ncore or j < ncore):
                ov = drops[i].overlaps(drops[j], grid=grid)
                ctx.op()
                ctx.check("C10.overlap-iff", bool(ov) == bool(S[i, j] < 0), {"i": i, "j": j, "surface": S[i, j], "overlaps": bool(ov)}, tags)
    # --- neighbour distances (Euclidean by documentation) -----------------
    if g is None:
        nd = em.get_neighbor_distances()
        ctx.op()
        if n == 0:
            ctx.check("C10.neighbors", np.shape(nd) == (0,), {"got": nd}, tags)
        elif n == 1:
            ctx.check("C10.neighbors", np.shape(nd) == (1,) and np.isnan(nd[0]), {"got": nd}, tags)
        else:
            Dm = D + np.diag(np.full(n, np.inf))
            want = Dm.min(axis=1)
            ctx.check("C10.neighbors", bool(np.allclose(nd, want, rtol=1e-12, atol=1e-12)), {"got": nd, "want": want}, tags)
            nds = em.get_neighbor_distances(subtract_radius=True)
            ctx.op()
            for i in range(n):
                near = np.flatnonzero(np.abs(Dm[i] - want[i]) <= 1e-9)
                if len(near) == 1 or len({round(float(Rs[j]), 12) for j in near}) == 1:
                    j = near[0]
                    ctx.check("C10.neighbors", abs(nds[i] - (D[i, j] - Rs[i] - Rs[j])) <= 1e-12, {"i": i, "got": nds[i], "want": D[i, j] - Rs[i] - Rs[j], "subtract_radius": True}, tags)
                else:
                    ctx.skip("nearest-neighbour-not-unique")

    # --- removal ------------------------------------------------------------
    before = list(em)
    em.remove_overlapping(min_distance=md, grid=grid)
    ctx.op()
    surv = [next(i for i, d in enumerate(before) if d is s) if any(d is s for d in before) else None for s in em]
    ctx.check("C10.identity-order", None not in surv and surv == sorted(surv) and len(set(surv)) == len(surv), {"survivor_indices": surv}, tags)
    if None in surv:
        return
    ctx.check("C10.unchanged", all(np.array_equal(before[i].position, spec[i][0]) and before[i].radius == spec[i][1] for i in range(n)), None, tags)
    sset = set(surv)
    amb = False
    for a in surv:
        for b in surv:
            if a < b:
                if abs(S[a, b] - md) <= TOL:
                    amb = True
                    continue
                ctx.check("C10.separated", S[a, b] >= md, {"pair": [a, b], "surface": S[a, b], "min_distance": md}, tags)
    removed = [i for i in range(n) if i not in sset]
    if removed:
        ctx.count("some-removed")
    if n >= 2 and np.any(S[~np.eye(n, dtype=bool)] < md):
        ctx.count("has-close-pair")
    for i in removed:
        close_big = [j for j in range(n) if j != i and S[i, j] < md + TOL and Rs[j] >= Rs[i]]
        ctx.check("C10.reason", len(close_big) > 0, {"removed": i, "surface_row": S[i], "radii": Rs, "min_distance": md}, tags)
    if n >= 1:
        top = np.flatnonzero(Rs == Rs.max())
        if len(top) == 1:
            ctx.check("C10.largest-survives", int(top[0]) in sset, {"largest": int(top[0]), "survivors": surv}, tags)
        else:
            ctx.count("tied-largest")
    k = len(em)
    em.remove_overlapping(min_distance=md, grid=grid)
    ctx.op()
    ctx.check("C10.idempotent", len(em) == k and all(a is before[i] for a, i in zip(em, surv)), {"before": k, "after": len(em)}, tags)
    # the distance queries after the removal(s) describe the survivors (no state left behind by the removal)
    M2 = em.get_pairwise_distances(subtract_radius=True, grid=grid)
    M3 = em.get_pairwise_distances(grid=grid)
    ctx.op(2)
    idx = np.array(surv, dtype=int)
    S2 = S[np.ix_(idx, idx)] if len(idx) else np.zeros((0, 0))
    D2 = D[np.ix_(idx, idx)] if len(idx) else np.zeros((0, 0))
    ok = M2.shape == S2.shape and bool(np.all(np.diag(M2) == 0)) and bool(np.allclose(M2, S2, rtol=1e-12, atol=1e-12)) and bool(np.allclose(M3, D2, rtol=1e-12, atol=1e-12)) and bool(np.all(np.diag(M3) == 0))
    ctx.check("C10.matrix", ok, {"after": "remove_overlapping", "got": M2, "want": S2}, tags)
    if amb:
        ctx.skip("pair-at-min-distance-knife-edge")


def run_random(case, ctx):
    import pde

    from droplets import Emulsion

    dim = case["dim"]
    rng = np.random.default_rng(case["rng"])
    lo = [-1.0, 2.0, 0.5][:dim]
    hi = [4.0, 9.0, 6.5][:dim]
    if case["region"] in ("polar", "sph", "sph-annular", "cyl"):
        return run_random_sym(case, ctx)
    if case["region"] == "bounds":
        region = [(l, h) for l, h in zip(lo, hi)]
    else:
        region = pde.CartesianGrid([(l, h) for l, h in zip(lo, hi)], [5] * dim, periodic=case["region"] == "grid-periodic")
    radius = case["radius"]
    radius = tuple(radius) if isinstance(radius, (list, tuple)) else radius
    em = Emulsion.from_random(case["num"], region, radius, rng=rng)
    ctx.op()
    r0, r1 = radius if isinstance(radius, tuple) else (radius, radius)
    ok = len(em) <= case["num"]
    for d in em:
        ok = ok and d.dim == dim and r0 - 1e-15 <= d.radius <= r1 + 1e-15 and all(l <= x <= h for x, l, h in zip(d.position, lo, hi))
    ctx.check("C10.random-in-range", bool(ok), {"n": len(em), "droplets": [[list(map(float, d.position)), d.radius] for d in em]})
    ds = list(em)
    sep = all(np.linalg.norm(a.position - b.position) - a.radius - b.radius >= -TOL for i, a in enumerate(ds) for b in ds[i + 1:])
    ctx.check("C10.random-separated", bool(sep), None)
    # same generator state gives the same emulsion (no hidden global randomness)
    em2 = Emulsion.from_random(case["num"], region, radius, rng=np.random.default_rng(case["rng"]))
    ctx.op()
    ctx.check("C10.random-reproducible", em == em2, None)
    em3 = Emulsion.from_random(case["num"], region, radius, rng=np.random.default_rng(case["rng"]), remove_overlapping=False)
    ctx.op()
    ctx.check("C10.random-in-range", len(em3) == case["num"], {"n": len(em3), "want": case["num"]})
    if len(em3) > len(em):
        ctx.count("random-overlap-removed")


def run_random_sym(case, ctx):
    """from_random with a symmetric grid as region: points of the (Cartesian) space the grid describes"""
    import pde

    from droplets import Emulsion

    kind = case["region"]
    if kind == "polar":
        grid, gdim, rin, rout = pde.PolarSymGrid(5.0, 8), 2, 0.0, 5.0
    elif kind == "sph":
        grid, gdim, rin, rout = pde.SphericalSymGrid(4.0, 8), 3, 0.0, 4.0
    elif kind == "sph-annular":
        grid, gdim, rin, rout = pde.SphericalSymGrid((1.0, 5.0), 8), 3, 1.0, 5.0
    else:
        grid, gdim, rin, rout = pde.CylindricalSymGrid(4.0, (-2.0, 6.0), (4, 8)), 3, 0.0, 4.0
    radius = case["radius"]
    radius = tuple(radius) if isinstance(radius, (list, tuple)) else radius
    r0, r1 = radius if isinstance(radius, tuple) else (radius, radius)
    em = Emulsion.from_random(case["num"], grid, radius, rng=np.random.default_rng(case["rng"]), remove_overlapping=False)
    ctx.op()
    ok = len(em) == case["num"]
    for d in em:
        p = np.asarray(d.position, float)
        ok = ok and d.dim == gdim and len(p) == gdim and r0 - 1e-15 <= d.radius <= r1 + 1e-15
        if kind == "cyl":
            ok = ok and len(p) == 3 and math.hypot(p[0], p[1]) <= rout + 1e-12 and -2.0 - 1e-12 <= p[2] <= 6.0 + 1e-12
        else:
            ok = ok and rin - 1e-12 <= float(np.linalg.norm(p)) <= rout + 1e-12
    ctx.check("C10.random-in-range", bool(ok), {"region": kind, "droplets": [[list(map(float, d.position)), d.radius] for d in em][:4], "dim": [d.dim for d in em][:4]})
    ctx.count("random-on-symmetric-grid")


def expected_positive(tier):
    return ["C10.separated", "C10.identity-order", "C10.reason", "C10.largest-survives", "C10.idempotent", "C10.matrix", "C10.overlap-iff",
            "C10.neighbors", "C10.random-in-range", "some-removed", "tied-largest", "random-overlap-removed", "random-on-symmetric-grid", "perturbed-members", "emulsions-with-more-than-8-droplets"]
