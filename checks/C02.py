"""C02 - each located droplet is one connected component under the grid's topology.

Space (kind I): ALL binary images of small Cartesian grids (1-3 dim) under every periodicity mask (+ anisotropic spacing and
non-zero origin on one shape), ALL binary images of small cylindrical grids with and without periodic z; plus a fixed
catalogue of larger structured images (labelled complement).  Reference: own union-find with period offsets.
"""
import itertools
import math

import numpy as np

from mcx import geom

PID = "C02"
RULE = (
    "every binary image of the declared grid shapes x every periodicity mask (Cartesian) / both periodic_z settings (cylindrical); "
    "reference labelling by an independent union-find carrying integer period offsets; non-trivial = image has at least one "
    "component; distinctness by (grid spec, image bits)"
    " plus all bodies of revolution over a width alphabet on 8x6 / 8x8 cylindrical grids, UnitGrid objects, bool / int8 / float32 storage of the binary image at the public entry point, and alternating-periodicity histories (every 3x3 and 2x2x2 image under two masks alternately, fresh fork per chunk) and every union of two wrapped rectangles (5 sizes x 64 positions) on an 8x8 grid; shared-grid-object histories (every image of a 3x4 cylindrical / anisotropic 3x3 grid analysed in sequence on ONE grid object)"
)
ASSUMPTIONS = [
    "exhaustive only up to the declared shapes (<= 20 cells); larger images are a fixed structured catalogue, not exhaustive",
    "cylindrical grids: position accepted if it matches the cell-count centroid or the volume-weighted centre of mass; "
    "sphere-disjointness is not demanded there",
    "sphere contact within 1e-9 is treated as ambiguous (either verdict accepted)",
]
TOL = 1e-9


def cart(shape, mask, dx=None, origin=None):
    return {"kind": "cart", "shape": list(shape), "dx": list(dx or [1.0] * len(shape)), "origin": list(origin or [0.0] * len(shape)), "periodic": [bool(m) for m in mask]}


def blocks(tier, seed):
    out = []

    def add_cart(shape, dx=None, origin=None, npre=0, via_field=False):
        for mask in itertools.product((False, True), repeat=len(shape)):
            for pre in itertools.product((0, 1), repeat=npre):
                out.append({"grid": cart(shape, mask, dx, origin), "prefix": list(pre), "via_field": via_field})

    for n in range(1, 11):
        add_cart((n,), via_field=n <= 6)
    add_cart((3, 3), via_field=True)
    for mask in itertools.product((False, True), repeat=2):  # the same images on a UnitGrid object
        out.append({"grid": dict(cart((3, 3), mask), unit=True), "prefix": [], "via_field": True})
    add_cart((3, 4), npre=1)
    add_cart((4, 3), npre=1)
    add_cart((3, 4), dx=[1.6, 0.5], origin=[-3.7, 2.25], npre=1)
    # other length units: nanometre / micrometre / astronomically large cells (cell volumes far below / above any absolute cut-off)
    add_cart((3, 3), dx=[1e-9, 2e-9], origin=[0.0, -3e-9], via_field=True)
    add_cart((2, 2, 2), dx=[2e-6, 2e-6, 1e-6], origin=[0.0, 0.0, 0.0], via_field=True)
    add_cart((4,), dx=[1e-17], origin=[0.0], via_field=True)
    add_cart((3, 3), dx=[1e8, 3e8], origin=[-1e9, 0.0])
    # boxes far away from the coordinate origin (|origin| / spacing = 2^27, all cell centres exactly representable)
    add_cart((3, 3), origin=[2.0**27, -(2.0**27)], via_field=True)
    add_cart((6,), origin=[2.0**27])
    if tier == "thorough":
        add_cart((4, 4), npre=4)
    else:  # quick: the doubly periodic mask only (all 65536 images)
        for pre in itertools.product((0, 1), repeat=4):
            out.append({"grid": cart((4, 4), (True, True)), "prefix": list(pre), "via_field": False})
    add_cart((2, 2, 3), npre=1)
    add_cart((1, 5))
    add_cart((5, 1))
    add_cart((2, 5), npre=0)
    for shape in [(3, 4), (3, 5), (2, 6)]:
        for pz in (False, True):
            for pre in itertools.product((0, 1), repeat=3):
                out.append({"grid": {"kind": "cyl", "shape": list(shape), "R": 3.0 if shape[0] == 3 else 2.4, "z": [-1.0, -1.0 + 0.8 * shape[1]], "periodic_z": pz}, "prefix": list(pre), "via_field": False})
    if tier == "thorough":
        add_cart((4, 5), npre=5)
        add_cart((5, 4), npre=5)
        add_cart((2, 3, 3), npre=4)
        add_cart((3, 2, 2), npre=1)
        add_cart((2, 2, 3), dx=[1.0, 2.0, 0.5], origin=[0.3, -1.0, 4.0], npre=1)
        add_cart((3, 6), npre=4)
        for shape in [(3, 6), (4, 4)]:
            for pz in (False, True):
                for pre in itertools.product((0, 1), repeat=3):
                    out.append({"grid": {"kind": "cyl", "shape": list(shape), "R": 2.0, "z": [0.0, 0.5 * shape[1]], "periodic_z": pz}, "prefix": list(pre), "via_field": False})
    # periodic cylinders whose z bounds / spacing are not exactly representable: every image that is mirror-symmetric about the periodic
    # boundary (its on-axis component is centred EXACTLY on the boundary), for a lattice of 41 one-decimal lower bounds x 3 one-decimal lengths x 3 cell counts
    for dzi in range(3):
        out.append({"cylbounds": dzi})
    # on-axis bodies of revolution on larger cylindrical grids: every layer z holds the cells r < w_z, w over a width alphabet
    # (all profiles enumerated: discs with tails, stacks, gaps = several components, winding cores)
    prof = [((8, 6), [0, 1, 2, 8]), ((8, 8), [0, 1, 8])] + ([((8, 8), [0, 1, 3, 8]), ((12, 6), [0, 1, 5, 12]), ((8, 10), [0, 1, 8])] if tier == "thorough" else [])
    for shape, alph in prof:
        for pz in (False, True):
            for w0 in alph:
                out.append({"grid": {"kind": "cyl", "shape": list(shape), "R": 0.5 * shape[0], "z": [-1.5, -1.5 + 0.75 * shape[1]], "periodic_z": pz}, "profile": alph, "prefix": [w0], "via_field": False})
    # histories: every 3x3 / 2x2x2 image analysed under two different periodicity masks alternately in one fresh process
    for shape in ((3, 3), (2, 2, 2)):
        masks = list(itertools.product((False, True), repeat=len(shape)))
        for a in range(len(masks)):
            for b in range(a + 1, len(masks)):
                out.append({"alternate": [list(masks[a]), list(masks[b])], "shape": list(shape)})
    # histories: the caller keeps ONE grid object and analyses image after image on it (all images of the grid, fresh fork per chunk)
    # alternating ORIGINS: the same box shape / spacing / periodicity at two places (every 3x3 image, fresh fork per chunk)
    for mask in ((True, True), (False, True), (False, False)):
        out.append({"alternate": [list(mask), list(mask)], "shape": [3, 3], "origins": [[0.0, 0.0], [-3.7, 2.25]]})
    for pz in (False, True):
        for part in range(8):
            out.append({"shared": {"kind": "cyl", "shape": [3, 4], "R": 3.0, "z": [-1.0, 2.2], "periodic_z": pz}, "part": part})
    for mask in ((True, False), (True, True)):
        out.append({"shared": cart((3, 3), mask, dx=[1.6, 0.5], origin=[-3.7, 2.25])})
    # larger grid, systematic family: every union of two wrapped axis-aligned rectangles (5 sizes x 64 positions each) on 8x8
    for mask in (itertools.product((False, True), repeat=2) if tier == "thorough" else ((True, True), (False, True))):
        for size_i in range(len(RECT_SIZES)):
            for half in (0, 1):
                out.append({"rectpairs": {"mask": list(mask), "size": size_i, "half": half}})
    # catalogue of larger structured images (complement; enumerated completely, but not an exhaustive image space)
    for mask in itertools.product((False, True), repeat=2):
        out.append({"grid": cart((12, 12), mask), "catalogue": seed % 4, "prefix": [], "via_field": True})
    return out


RECT_SIZES = [(1, 3), (3, 1), (2, 2), (6, 1), (1, 6)]


def rect_cells(n, x0, y0, w, h):
    return {((x0 + i) % n, (y0 + j) % n) for i in range(w) for j in range(h)}


def catalogue(variant):
    """fixed structured 12x12 images: rings, combs, spirals, diagonal noise patterns with phase shifts"""
    n = 12
    ii, jj = np.meshgrid(np.arange(n), np.arange(n), indexing="ij")
    imgs = []
    for s in range(0, 12, 2):
        sh = (s + variant) % n
        ring = (np.abs(ii - 5.5) + np.abs(jj - 5.5) < 5) & ~(np.abs(ii - 5.5) + np.abs(jj - 5.5) < 3)
        imgs.append(np.roll(ring, (sh, 2 * sh), (0, 1)))
        comb = ((jj % 2 == 0) & (ii < 9)) | (ii == 0)
        imgs.append(np.roll(comb, (sh, sh), (0, 1)))
        noise = ((ii * 7 + jj * 3 + ii * jj + variant) % 5 < 2)
        imgs.append(np.roll(noise, (sh, 0), (0, 1)))
        noise2 = ((ii * ii + 3 * jj + variant) % 7 < 3)
        imgs.append(np.roll(noise2, (0, sh), (0, 1)))
        cross = (np.abs(ii - 6) < 1) | (np.abs(jj - 6) < 1)
        imgs.append(np.roll(cross & ((ii + jj + s) % 6 != 0), (sh, sh), (0, 1)))
        blobs = ((ii - 2) ** 2 + (jj - 2) ** 2 < 5) | ((ii - 8) ** 2 + (jj - 7) ** 2 < 9) | ((ii - 2) ** 2 + (jj - 9) ** 2 < 3)
        imgs.append(np.roll(blobs, (sh, 3 * sh), (0, 1)))
    return imgs


def cases(block):
    if "alternate" in block:
        shape = block["shape"]
        oa, ob = block.get("origins", [None, None])
        ga, gb = cart(shape, block["alternate"][0], origin=oa), cart(shape, block["alternate"][1], origin=ob)
        n = int(np.prod(shape))
        seq = []
        for bits in itertools.product((0, 1), repeat=n):
            if sum(bits) >= 2:
                b = "".join(map(str, bits))
                seq += [{"grid": ga, "bits": b, "via_field": False}, {"grid": gb, "bits": b, "via_field": False}]
        # one long alternating sequence per pair of masks (A, B, A, B, ...), cut into chunks that each start in a fresh process
        for i in range(0, len(seq), 64):
            yield {"sequence": seq[i:i + 64]}
            yield {"sequence": seq[i + 1:i + 65]}
        return
    if "cylbounds" in block:
        L = [11.1, 12.3, 16.8][block["cylbounds"]]
        nr = 3
        for nz in (4, 20, 37):
            for k in range(41):
                z0 = round(0.7 * k - 10, 1)  # both bounds are one-decimal numbers: spacing and period are not exactly representable
                g = {"kind": "cyl", "shape": [nr, nz], "R": 3.0, "z": [z0, round(z0 + L, 1)], "periodic_z": True}
                if nz == 4:
                    halves = [np.array(half, bool).reshape(nr, 2) for half in itertools.product((0, 1), repeat=nr * 2)]
                else:  # symmetric bodies of revolution: m layers of r cells on either side of the boundary (+ a thinner tail)
                    halves = []
                    for m, r, tail in itertools.product((1, 2, 4), (1, 2), (0, 3)):
                        h = np.zeros((nr, nz // 2), bool)
                        h[:r, :m] = True
                        h[:1, :m + tail] = True
                        halves.append(h)
                for h in halves:
                    if not h[0, 0]:
                        continue  # the on-axis cell next to the boundary is set: the component straddles the boundary
                    mid = np.zeros((nr, nz - 2 * h.shape[1]), bool)
                    img = np.concatenate([h, mid, h[:, ::-1]], axis=1)
                    yield {"grid": g, "bits": "".join("1" if b else "0" for b in img.ravel()), "via_field": False, "cylbounds": True}
        return
    if "rectpairs" in block:
        rp = block["rectpairs"]
        n = 8
        g = cart((n, n), rp["mask"])
        w1, h1 = RECT_SIZES[rp["size"]]
        rects2 = [(x, y, w, h) for (w, h) in RECT_SIZES for x in range(n) for y in range(n)]
        for x1 in range(rp["half"] * 4, rp["half"] * 4 + 4):
            for y1 in range(n):
                A = rect_cells(n, x1, y1, w1, h1)
                for (x2, y2, w2, h2) in rects2:
                    if (w2, h2, x2, y2) < (w1, h1, x1, y1):
                        continue  # unordered pairs
                    img = np.zeros((n, n), bool)
                    for c in A | rect_cells(n, x2, y2, w2, h2):
                        img[c] = True
                    yield {"grid": g, "bits": "".join("1" if b else "0" for b in img.ravel()), "via_field": False, "rectpair": True}
        return
    if "shared" in block:
        g = block["shared"]
        n = int(np.prod(g["shape"]))
        seq = [{"grid": g, "bits": "".join(map(str, bits)), "via_field": False, "share_grid": True} for bits in itertools.product((0, 1), repeat=n)]
        if "part" in block:
            seq = seq[block["part"] * len(seq) // 8:(block["part"] + 1) * len(seq) // 8]
        for i in range(0, len(seq), 64):
            yield {"sequence": seq[i:i + 64], "shared": True}
        return
    g = block["grid"]
    if "catalogue" in block:
        for i, img in enumerate(catalogue(block["catalogue"])):
            yield {"grid": g, "bits": "".join("1" if b else "0" for b in img.ravel()), "via_field": True, "catalogue": True}
        return
    shape = g["shape"]
    if "profile" in block:
        for rest in itertools.product(block["profile"], repeat=shape[1] - 1):
            widths = list(block["prefix"]) + list(rest)
            img = np.zeros(shape, bool)
            for z, w in enumerate(widths):
                img[:w, z] = True
            yield {"grid": g, "bits": "".join("1" if b else "0" for b in img.ravel()), "via_field": False, "profile": widths}
        return
    n = int(np.prod(shape))
    pre = block["prefix"]
    for rest in itertools.product((0, 1), repeat=n - len(pre)):
        bits = "".join(map(str, list(pre) + list(rest)))
        yield {"grid": g, "bits": bits, "via_field": block["via_field"]}


def match(cands):
    """maximum bipartite matching: cands[i] = list of component ids acceptable for droplet i"""
    owner = {}

    def try_(i, seen):
        for c in cands[i]:
            if c in seen:
                continue
            seen.add(c)
            if c not in owner or try_(owner[c], seen):
                owner[c] = i
                return True
        return False

    n = 0
    for i in range(len(cands)):
        if try_(i, set()):
            n += 1
    return n, owner


def pdist(g, p, q):
    return geom.point_dist(g, p, q)


def run_case(case, ctx):
    from pde import ScalarField

    from droplets.image_analysis import locate_droplets, locate_droplets_in_mask

    if "sequence" in case:
        from mcx import core

        ctx.count("shared-grid-object-sequences" if case.get("shared") else "alternating-mask-sequences")
        return core.run_sequence_in_fork(run_case, case["sequence"], ctx, tag={"history": True})
    g = case["grid"]
    shape = tuple(g["shape"])
    img = np.array([c == "1" for c in case["bits"]], bool).reshape(shape)
    grid = geom.make_grid(g, share=bool(case.get("share_grid")))
    cyl = g["kind"] == "cyl"
    periodic = [False, g["periodic_z"]] if cyl else g["periodic"]
    tags = {"grid": g["kind"], "periodic": periodic}
    try:
        em = locate_droplets_in_mask(ScalarField(grid, img, dtype=bool))
        ctx.op()
    except Exception as e:  # noqa
        ctx.check("C02.no-raise", False, {"exc": repr(e)}, tags)
        return
    ctx.check("C02.no-raise", True)
    if case.get("profile") is not None:
        ctx.count("cyl-profile-images")
    if g["kind"] == "cart" and not (1e-3 <= max(g["dx"]) <= 1e3):
        ctx.count("other-length-units")
    if case.get("cylbounds"):
        ctx.count("cyl-component-centred-on-the-periodic-boundary")
    if case.get("rectpair"):
        ctx.count("two-rectangle-images-8x8")
    comps = geom.components(img, periodic)
    cellvol = geom.cell_volumes(g)
    if cyl:
        comps = [c for c in comps if any(cell[0] == 0 for cell in c["cells"])]
        if not comps:
            ctx.check("C02.cyl-empty", len(em) == 0, {"n": len(em)}, tags)
            ctx.count("cyl-no-on-axis-component")
            if img.any():
                ctx.count("cyl-off-axis-only")
            return
    # expected data per component
    exp = []
    for c in comps:
        vol = float(sum(cellvol[cell] for cell in c["cells"]))
        e = {"vol": vol, "winding": c["winding"], "n": len(c["cells"])}
        if not c["winding"]:
            unw = np.array(c["unwrapped"], float) + 0.5
            if cyl:
                dz = (g["z"][1] - g["z"][0]) / shape[1]
                zc = g["z"][0] + unw[:, 1] * dz
                w = np.array([cellvol[cell] for cell in c["cells"]])
                e["pos_count"] = np.array([0.0, 0.0, float(zc.mean())])
                e["pos_vol"] = np.array([0.0, 0.0, float((zc * w).sum() / w.sum())])
            else:
                e["pos"] = np.array(g["origin"]) + unw.mean(axis=0) * np.array(g["dx"])
            pieces = sum(1 for _ in c["cells"])
        exp.append(e)
    dim = 3 if cyl else len(shape)
    nwind = sum(e["winding"] for e in exp)
    if nwind:
        ctx.count("winding-components", nwind)
    if len(comps) >= 2:
        ctx.count("multi-component-images")
    # boundary-crossing statistics (non-vacuity)
    for c in comps:
        if c["unwrapped"] is not None and any(tuple(u) != tuple(cell) for u, cell in zip(c["unwrapped"], c["cells"])):
            ctx.count("components-crossing-a-periodic-boundary")
            if not cyl and len(shape) >= 2:
                unw = np.array(c["unwrapped"])
                raw = np.array(c["cells"])
                if np.all(np.any(unw != raw, axis=0)):
                    ctx.count("corner-crossing-components")

    Lz = (g["z"][1] - g["z"][0]) if cyl else None
    if cyl and g["periodic_z"]:
        # structural class of the image: some on-axis component winds around z or is longer (unwrapped) than the box
        span = False
        for c in comps:
            if c["winding"]:
                span = True
            else:
                zs = [u[1] for u in c["unwrapped"]]
                if max(zs) - min(zs) + 1 > shape[1]:
                    span = True
        tags = dict(tags, on_axis_component_longer_than_box=span)
        if span:
            ctx.count("cyl-component-longer-than-box")
            # the recorded finding is specific: the library then analyses the image WITHOUT periodicity.  Only an outcome that
            # equals that non-periodic analysis (every on-axis component of the unwrapped box, count centroid, no de-duplication)
            # is attributed to the known finding; anything else is reported as a new violation.
            npc = [c for c in geom.components(img, [False, False]) if any(cell[0] == 0 for cell in c["cells"])]
            dz = (g["z"][1] - g["z"][0]) / shape[1]
            want = sorted((round(float(sum(cellvol[cell] for cell in c["cells"])), 9), round(g["z"][0] + (np.mean([cell[1] for cell in c["cells"]]) + 0.5) * dz, 9)) for c in npc)
            got = sorted((round(float(d.volume), 9), round(float(d.position[2]), 9)) for d in em)
            same = len(want) == len(got) and all(abs(a[0] - b[0]) <= 1e-8 * max(1.0, abs(a[0])) and abs(a[1] - b[1]) <= 1e-8 for a, b in zip(want, got))
            tags = dict(tags, equals_nonperiodic_analysis=bool(same))

    def posmatch(d, e):
        if e["winding"]:
            return True
        p = np.asarray(d.position, float)
        if cyl:
            for key in ("pos_count", "pos_vol"):
                dz_ = p[2] - e[key][2]
                if g["periodic_z"]:
                    dz_ = dz_ - Lz * round(dz_ / Lz)
                if abs(dz_) <= 1e-9 * max(1.0, Lz) and abs(p[0]) <= 1e-12 and abs(p[1]) <= 1e-12:
                    return True
            return False
        # 1e-9 of the box, plus the resolution of a double at the magnitude of the coordinates (boxes far from the origin)
        return pdist(g, p, e["pos"]) <= 1e-9 * max(geom.cart_lengths(g)) + 8 * np.finfo(float).eps * max(abs(o) + L_ for o, L_ in zip(g["origin"], geom.cart_lengths(g)))

    cands = []
    for d in em:
        v = float(d.volume)
        cands.append([i for i, e in enumerate(exp) if abs(v - e["vol"]) <= 1e-9 * e["vol"] and posmatch(d, e)])
    nmatch, owner = match(cands)
    detail = None
    if nmatch != len(em):
        detail = {"returned": [[list(map(float, d.position)), float(d.volume)] for d in em],
                  "components": [{k: (v.tolist() if hasattr(v, "tolist") else v) for k, v in e.items()} for e in exp]}
        # classify: volume mismatch or position mismatch
        volok = all(any(abs(float(d.volume) - e["vol"]) <= 1e-9 * e["vol"] for e in exp) for d in em)
        tags2 = dict(tags, kind="position" if volok else "volume")
    else:
        tags2 = tags
    ctx.check("C02.bijection", nmatch == len(em), detail, tags2)
    ctx.check("C02.dim", all(d.dim == dim for d in em) and (em.dim in (dim, None)), {"dims": [d.dim for d in em]}, tags)
    if nmatch != len(em):
        return
    # in-box along periodic axes
    if not cyl:
        for d in em:
            for ax in range(dim):
                if g["periodic"][ax]:
                    lo = g["origin"][ax]
                    hi = lo + g["shape"][ax] * g["dx"][ax]
                    ctx.check("C02.inbox", lo - 1e-12 * (hi - lo) <= d.position[ax] <= hi + 1e-12 * (hi - lo), {"pos": d.position, "axis": ax}, tags)
    else:
        for d in em:
            if g["periodic_z"]:
                ctx.check("C02.inbox", g["z"][0] - 1e-12 <= d.position[2] <= g["z"][1] + 1e-12, {"pos": d.position}, tags)
    # disjointness of returned spheres (Cartesian)
    if not cyl:
        ds = list(em)
        for i in range(len(ds)):
            for j in range(i + 1, len(ds)):
                gap = pdist(g, ds[i].position, ds[j].position) - ds[i].radius - ds[j].radius
                ctx.check("C02.disjoint", gap >= -TOL * max(g["dx"]), {"i": i, "j": j, "gap": gap}, tags)
    # omitted components
    omitted = [i for i in range(len(exp)) if i not in owner]
    if omitted:
        ctx.count("omitted-components", len(omitted))
    if not cyl:
        for i in omitted:
            e = exp[i]
            if e["winding"]:
                ctx.skip("omitted-winding-component-position-undefined")
                continue
            ri = geom.sphere_radius(e["vol"], dim)
            ok = False
            amb = False
            for j, f in enumerate(exp):
                if j == i or f["vol"] < e["vol"] * (1 - 1e-12):
                    continue
                if f["winding"]:
                    if j in owner:
                        pj = np.asarray(em[owner[j]].position, float)
                    else:
                        amb = True
                        continue
                else:
                    pj = f["pos"]
                gap = pdist(g, e["pos"], pj) - ri - geom.sphere_radius(f["vol"], dim)
                if gap < TOL * max(g["dx"]):
                    ok = True
                    break
            if not ok and amb:
                ctx.skip("omitted-next-to-unplaced-winding-component")
                continue
            ctx.check("C02.omitted", ok, {"component": {k: (v.tolist() if hasattr(v, "tolist") else v) for k, v in e.items()}}, tags)
    else:
        # cylindrical: components may only be omitted by the de-duplication of overlapping spheres in the periodic case
        if omitted and not g["periodic_z"]:
            ctx.check("C02.omitted", False, {"omitted": [exp[i]["vol"] for i in omitted], "note": "non-periodic cylindrical grid never removes components"}, tags)
        elif omitted:
            for i in omitted:
                e = exp[i]
                if e["winding"]:
                    ctx.skip("omitted-winding-component-position-undefined")
                    continue
                ri = geom.sphere_radius(e["vol"], 3)
                ok = False
                for j, f in enumerate(exp):
                    if j == i or f["vol"] < e["vol"] * (1 - 1e-12) or f["winding"]:
                        if j != i and f["winding"]:
                            ok = True  # cannot decide: accept
                        continue
                    for key in ("pos_count", "pos_vol"):
                        dzv = e[key][2] - f[key][2]
                        # library de-duplicates with the plain Euclidean metric in the padded image: accept either metric
                        for dd in (abs(dzv), abs(dzv - Lz * round(dzv / Lz))):
                            if dd - ri - geom.sphere_radius(f["vol"], 3) < TOL:
                                ok = True
                ctx.check("C02.omitted", ok, {"component": {k: (v.tolist() if hasattr(v, "tolist") else v) for k, v in e.items()}}, tags)

    # the public entry point on the {0,1} field must agree with the mask routine
    if case.get("via_field"):
        field = ScalarField(grid, img.astype(float))
        em2 = locate_droplets(field, threshold=0.5)
        ctx.op()
        a = sorted((tuple(np.round(d.position, 12)), round(d.radius, 12)) for d in em if d.radius > 0)
        b = sorted((tuple(np.round(d.position, 12)), round(d.radius, 12)) for d in em2)
        ctx.check("C02.entry-point", a == b, {"mask": a, "field": b}, tags)
        # the storage type of a binary image must not matter: bool, small integer and single-precision fields
        for dt in (bool, np.int8, np.float32):
            try:
                em3 = locate_droplets(ScalarField(grid, img.astype(dt), dtype=dt), threshold=0.5)
                ctx.op()
                c3 = sorted((tuple(np.round(d.position, 12)), round(d.radius, 12)) for d in em3)
                ctx.check("C02.entry-point", c3 == b, {"dtype": np.dtype(dt).name, "got": c3, "float64": b}, tags)
            except Exception as e:  # noqa
                ctx.check("C02.entry-point", False, {"dtype": np.dtype(dt).name, "exc": repr(e)[:200]}, tags)


def expected_positive(tier):
    return ["C02.bijection", "C02.disjoint", "C02.omitted", "C02.cyl-empty", "C02.inbox", "C02.entry-point", "winding-components",
            "components-crossing-a-periodic-boundary", "corner-crossing-components", "omitted-components", "cyl-off-axis-only", "multi-component-images", "cyl-profile-images", "alternating-mask-sequences", "shared-grid-object-sequences", "two-rectangle-images-8x8", "other-length-units", "cyl-component-centred-on-the-periodic-boundary"]
